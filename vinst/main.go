// vinst instruments go-argmapper for model checking without touching /repo: it
// parses and type-checks the two library packages from the working tree, rewrites
// them and emits the rewritten files plus a `go build -overlay` description.
//
//	vinst [-access] <outdir> <vrt-src-dir> <repo-root>
//
// Rewrites (see DESIGN.md §3.2):
//  1. every range over a map iterates verifrt.Keys(m, site) (site = Func#ordinal);
//  2. verifrt.Enter/Exit at every function, verifrt.Tick at every loop head;
//  3. with -access: verifrt.Access before every statement touching a field of
//     Func/ValueSet/Value/Result, a package-level variable or a closure-captured
//     variable;
//  4. imports of "sync" are redirected to the verifrt/vsync shim.
package main

import (
	"bytes"
	"encoding/json"
	"flag"
	"fmt"
	"go/ast"
	"go/importer"
	"go/parser"
	"go/printer"
	"go/token"
	"go/types"
	"os"
	"path/filepath"
	"sort"
	"strconv"
	"strings"

	"golang.org/x/tools/go/ast/astutil"
)

const rtPath = "github.com/hashicorp/go-argmapper/internal/verifrt"

type siteInfo struct {
	ID   string `json:"id"`
	Pos  string `json:"pos"`
	Kind string `json:"kind"`
}

var plainSrc = map[string]string{}

var (
	sites      []siteInfo
	withAccess bool
	warnings   []string
)

func main() {
	flag.BoolVar(&withAccess, "access", false, "insert shared-memory access hooks")
	asRoot := flag.String("as", "", "overlay the instrumented sources onto this module root instead of <repo-root> (checks a scratch copy against the harness's replace target)")
	flag.Parse()
	if flag.NArg() != 3 {
		fmt.Fprintln(os.Stderr, "usage: vinst [-access] <outdir> <vrt-src-dir> <repo-root>")
		os.Exit(2)
	}
	outDir, _ := filepath.Abs(flag.Arg(0))
	rtSrc, _ := filepath.Abs(flag.Arg(1))
	repo, _ := filepath.Abs(flag.Arg(2))
	if err := os.Chdir(repo); err != nil {
		die(err)
	}
	target := repo
	if *asRoot != "" {
		target, _ = filepath.Abs(*asRoot)
	}
	mapPath := func(p string) string {
		rel, err := filepath.Rel(repo, p)
		if err != nil {
			die(err)
		}
		return filepath.Join(target, rel)
	}
	os.MkdirAll(outDir, 0755)
	overlay := map[string]string{}
	dirs := []string{repo, filepath.Join(repo, "internal/graph")}
	for di, dir := range dirs {
		fset := token.NewFileSet()
		pkgs, err := parser.ParseDir(fset, dir, func(fi os.FileInfo) bool { return !strings.HasSuffix(fi.Name(), "_test.go") }, parser.ParseComments)
		if err != nil {
			die(err)
		}
		var pnames []string
		for name := range pkgs {
			pnames = append(pnames, name)
		}
		sort.Strings(pnames)
		for _, name := range pnames {
			pkg := pkgs[name]
			var fnames []string
			for fn := range pkg.Files {
				fnames = append(fnames, fn)
			}
			sort.Strings(fnames)
			var files []*ast.File
			for _, fn := range fnames {
				files = append(files, pkg.Files[fn])
			}
			conf := types.Config{Importer: importer.ForCompiler(fset, "source", nil)}
			info := &types.Info{Types: map[ast.Expr]types.TypeAndValue{}, Uses: map[*ast.Ident]types.Object{}, Defs: map[*ast.Ident]types.Object{}, Selections: map[*ast.SelectorExpr]*types.Selection{}}
			if _, err := conf.Check(name, fset, files, info); err != nil {
				die(fmt.Errorf("type-check %s: %v", dir, err))
			}
			for i, f := range files {
				if !instrumentFile(f, info, fset) && target == repo {
					continue
				}
				var buf bytes.Buffer
				buf.WriteString("//go:build go1.21\n\n")
				if err := printer.Fprint(&buf, fset, f); err != nil {
					die(err)
				}
				out := filepath.Join(outDir, fmt.Sprintf("%d_%s", di, filepath.Base(fnames[i])))
				if err := os.WriteFile(out, buf.Bytes(), 0644); err != nil {
					die(err)
				}
				abs, _ := filepath.Abs(fnames[i])
				overlay[mapPath(abs)] = out
				if target != repo {
					plainSrc[mapPath(abs)] = abs
				}
			}
		}
	}
	// the runtime as a virtual package inside the repo module
	addRT := func(src, rel string) {
		ents, err := os.ReadDir(src)
		if err != nil {
			die(err)
		}
		for _, e := range ents {
			if strings.HasSuffix(e.Name(), ".go") {
				overlay[filepath.Join(target, rel, e.Name())] = filepath.Join(src, e.Name())
			}
		}
	}
	addRT(rtSrc, "internal/verifrt")
	addRT(filepath.Join(rtSrc, "vsync"), "internal/verifrt/vsync")
	b, _ := json.MarshalIndent(map[string]interface{}{"Replace": overlay}, "", " ")
	os.WriteFile(filepath.Join(outDir, "overlay.json"), b, 0644)
	// plain overlay: runtime only, library sources untouched (for the -race pass)
	plain := map[string]string{}
	for k, v := range plainSrc {
		plain[k] = v
	}
	for k, v := range overlay {
		if strings.Contains(k, "internal/verifrt") {
			plain[k] = v
		}
	}
	b, _ = json.MarshalIndent(map[string]interface{}{"Replace": plain}, "", " ")
	os.WriteFile(filepath.Join(outDir, "overlay-plain.json"), b, 0644)
	sb, _ := json.MarshalIndent(map[string]interface{}{"sites": sites, "warnings": warnings, "access": withAccess}, "", " ")
	os.WriteFile(filepath.Join(outDir, "sites.json"), sb, 0644)
	nr, na := 0, 0
	for _, s := range sites {
		if s.Kind == "range" {
			nr++
		} else {
			na++
		}
	}
	fmt.Printf("vinst: %d map-range sites, %d access hooks, %d warnings\n", nr, na, len(warnings))
}

func die(err error) {
	fmt.Fprintln(os.Stderr, "vinst:", err)
	os.Exit(2)
}

func id(s string) *ast.Ident { return ast.NewIdent(s) }
func str(s string) ast.Expr  { return &ast.BasicLit{Kind: token.STRING, Value: strconv.Quote(s)} }
func rtCall(fn string, args ...ast.Expr) *ast.CallExpr {
	return &ast.CallExpr{Fun: &ast.SelectorExpr{X: id("verifrt"), Sel: id(fn)}, Args: args}
}

func funcName(fd *ast.FuncDecl) string {
	if fd.Recv != nil && len(fd.Recv.List) == 1 {
		t := fd.Recv.List[0].Type
		if s, ok := t.(*ast.StarExpr); ok {
			t = s.X
		}
		if i, ok := t.(*ast.Ident); ok {
			return i.Name + "." + fd.Name.Name
		}
	}
	return fd.Name.Name
}

func instrumentFile(f *ast.File, info *types.Info, fset *token.FileSet) (changed bool) {
	// redirect sync imports to the shim
	for _, imp := range f.Imports {
		switch imp.Path.Value {
		case `"sync"`:
			imp.Path.Value = strconv.Quote(rtPath + "/vsync")
			if imp.Name == nil {
				imp.Name = id("sync")
			}
		case `"sync/atomic"`:
			warnings = append(warnings, "sync/atomic imported in "+fset.Position(imp.Pos()).Filename+": not modelled by the scheduler")
		}
	}
	for _, d := range f.Decls {
		fd, ok := d.(*ast.FuncDecl)
		if !ok || fd.Body == nil {
			continue
		}
		name := funcName(fd)
		ord := 0
		changed = true
		// 1. map ranges (post-order so nested loops are rewritten inside out)
		astutil.Apply(fd.Body, nil, func(c *astutil.Cursor) bool {
			switch n := c.Node().(type) {
			case *ast.RangeStmt:
				t := info.TypeOf(n.X)
				if t == nil {
					return true
				}
				if _, ok := t.Underlying().(*types.Map); !ok {
					return true
				}
				if _, isLabeled := c.Parent().(*ast.LabeledStmt); isLabeled {
					warnings = append(warnings, "labeled map range not instrumented at "+fset.Position(n.Pos()).String())
					return true
				}
				site := fmt.Sprintf("%s#%d", name, ord)
				ord++
				sites = append(sites, siteInfo{site, fset.Position(n.Pos()).String(), "range"})
				c.Replace(rewriteRange(n, site, name))
			case *ast.GoStmt:
				warnings = append(warnings, "go statement in library at "+fset.Position(n.Pos()).String()+": not modelled")
			case *ast.SendStmt, *ast.SelectStmt:
				warnings = append(warnings, "channel operation in library at "+fset.Position(n.Pos()).String()+": not modelled")
			}
			return true
		})
		// 2. ticks at loop heads
		ast.Inspect(fd.Body, func(n ast.Node) bool {
			switch l := n.(type) {
			case *ast.ForStmt:
				l.Body.List = append([]ast.Stmt{&ast.ExprStmt{X: rtCall("Tick", str(name))}}, l.Body.List...)
			case *ast.RangeStmt:
				l.Body.List = append([]ast.Stmt{&ast.ExprStmt{X: rtCall("Tick", str(name))}}, l.Body.List...)
			}
			return true
		})
		// 3. access hooks
		if withAccess && f.Name.Name == "argmapper" {
			insertAccess(fd, name, info, fset)
		}
		// 4. budgets
		enter := &ast.ExprStmt{X: rtCall("Enter", str(name))}
		exit := &ast.DeferStmt{Call: rtCall("Exit", str(name))}
		fd.Body.List = append([]ast.Stmt{enter, exit}, fd.Body.List...)
	}
	if changed {
		astutil.AddNamedImport(fset, f, "verifrt", rtPath)
	}
	return changed
}

func rewriteRange(rs *ast.RangeStmt, site, fn string) ast.Stmt {
	isBlank := func(e ast.Expr) bool {
		if e == nil {
			return true
		}
		i, ok := e.(*ast.Ident)
		return ok && i.Name == "_"
	}
	var stmts []ast.Stmt
	stmts = append(stmts, &ast.AssignStmt{Lhs: []ast.Expr{id("__m")}, Tok: token.DEFINE, Rhs: []ast.Expr{rs.X}})
	stmts = append(stmts, &ast.AssignStmt{Lhs: []ast.Expr{id("__ks")}, Tok: token.DEFINE, Rhs: []ast.Expr{rtCall("Keys", id("__m"), str(site))}})
	var keyExpr ast.Expr = id("__k")
	var valExpr ast.Expr
	declK, declV := true, false
	if !isBlank(rs.Key) {
		keyExpr = rs.Key
		declK = rs.Tok == token.DEFINE
	}
	if !isBlank(rs.Value) {
		valExpr = rs.Value
		declV = rs.Tok == token.DEFINE
	}
	if declK {
		stmts = append(stmts, &ast.AssignStmt{Lhs: []ast.Expr{keyExpr}, Tok: token.DEFINE, Rhs: []ast.Expr{rtCall("ZeroK", id("__m"))}})
		stmts = append(stmts, &ast.AssignStmt{Lhs: []ast.Expr{id("_")}, Tok: token.ASSIGN, Rhs: []ast.Expr{keyExpr}})
	}
	if declV {
		stmts = append(stmts, &ast.AssignStmt{Lhs: []ast.Expr{valExpr}, Tok: token.DEFINE, Rhs: []ast.Expr{rtCall("ZeroV", id("__m"))}})
		stmts = append(stmts, &ast.AssignStmt{Lhs: []ast.Expr{id("_")}, Tok: token.ASSIGN, Rhs: []ast.Expr{valExpr}})
	}
	var body []ast.Stmt
	body = append(body, &ast.AssignStmt{Lhs: []ast.Expr{keyExpr}, Tok: token.ASSIGN, Rhs: []ast.Expr{&ast.IndexExpr{X: id("__ks"), Index: id("__i")}}})
	lhsV := valExpr
	if lhsV == nil {
		lhsV = id("_")
	}
	body = append(body, &ast.DeclStmt{Decl: &ast.GenDecl{Tok: token.VAR, Specs: []ast.Spec{&ast.ValueSpec{Names: []*ast.Ident{id("__ok")}, Type: id("bool")}}}})
	body = append(body, &ast.IfStmt{
		Init: &ast.AssignStmt{Lhs: []ast.Expr{lhsV, id("__ok")}, Tok: token.ASSIGN, Rhs: []ast.Expr{&ast.IndexExpr{X: id("__m"), Index: keyExpr}}},
		Cond: &ast.UnaryExpr{Op: token.NOT, X: id("__ok")},
		Body: &ast.BlockStmt{List: []ast.Stmt{&ast.BranchStmt{Tok: token.CONTINUE}}},
	})
	body = append(body, rs.Body.List...)
	loop := &ast.RangeStmt{Key: id("__i"), Tok: token.DEFINE, X: id("__ks"), Body: &ast.BlockStmt{List: body}}
	stmts = append(stmts, loop)
	stmts = append(stmts, &ast.ExprStmt{X: rtCall("Done",
		&ast.CallExpr{Fun: id("len"), Args: []ast.Expr{id("__m")}},
		&ast.CallExpr{Fun: id("len"), Args: []ast.Expr{id("__ks")}}, str(site))})
	return &ast.BlockStmt{List: stmts}
}

// ---- access hooks

var sharedTypes = map[string]bool{"Func": true, "ValueSet": true, "Value": true, "Result": true}

type acc struct {
	class string
	addr  ast.Expr
	write bool
	raw   bool // addr is already an address-valued expression
}

func namedOf(t types.Type) string {
	for {
		if p, ok := t.(*types.Pointer); ok {
			t = p.Elem()
			continue
		}
		break
	}
	if n, ok := t.(*types.Named); ok {
		return n.Obj().Name()
	}
	return ""
}

func sharedSelector(e ast.Expr, info *types.Info) (string, bool) {
	se, ok := e.(*ast.SelectorExpr)
	if !ok {
		return "", false
	}
	sel, ok := info.Selections[se]
	if !ok || sel.Kind() != types.FieldVal {
		return "", false
	}
	tn := namedOf(sel.Recv())
	if !sharedTypes[tn] {
		return "", false
	}
	return tn + "." + se.Sel.Name, true
}

func collect(n ast.Node, info *types.Info, lits []*ast.FuncLit, writes map[ast.Expr]bool, out *[]acc) {
	ast.Inspect(n, func(x ast.Node) bool {
		switch e := x.(type) {
		case *ast.FuncLit:
			return false
		case *ast.BlockStmt:
			return x == n
		case *ast.IndexExpr:
			// element of a slice/map held in a shared field
			if cls, ok := sharedSelector(e.X, info); ok {
				t := info.TypeOf(e.X)
				if t != nil {
					switch t.Underlying().(type) {
					case *types.Slice:
						*out = append(*out, acc{class: cls + "[]", addr: e, write: writes[e]})
					case *types.Map:
						if writes[e] {
							*out = append(*out, acc{class: cls, addr: e.X, write: true})
						}
					}
				}
			}
		case *ast.CallExpr:
			// append(x.f, ...) on a slice held in a shared field writes the first spare
			// element of the shared backing array when there is spare capacity
			if fi, ok := e.Fun.(*ast.Ident); ok && fi.Name == "append" && len(e.Args) > 0 {
				if cls, ok := sharedSelector(e.Args[0], info); ok {
					x := e.Args[0]
					spare := &ast.UnaryExpr{Op: token.AND, X: &ast.IndexExpr{
						X:     &ast.SliceExpr{X: x, High: &ast.CallExpr{Fun: id("cap"), Args: []ast.Expr{x}}},
						Index: &ast.CallExpr{Fun: id("len"), Args: []ast.Expr{x}},
					}}
					*out = append(*out, acc{class: cls + "[spare]", addr: spare, write: true, raw: true})
				}
			}
		case *ast.StarExpr:
			// whole-struct read or write through a pointer (e.g. fCopy := *v.Func):
			// an access to every field
			if t := info.TypeOf(e); t != nil {
				if tn := namedOf(t); sharedTypes[tn] {
					if _, isPtr := t.(*types.Pointer); !isPtr {
						if st, ok := t.Underlying().(*types.Struct); ok {
							for i := 0; i < st.NumFields(); i++ {
								fld := st.Field(i)
								if fld.Embedded() {
									continue
								}
								*out = append(*out, acc{class: tn + "." + fld.Name(), addr: &ast.SelectorExpr{X: e.X, Sel: ast.NewIdent(fld.Name())}, write: writes[e]})
							}
						}
					}
				}
			}
		case *ast.SelectorExpr:
			if cls, ok := sharedSelector(e, info); ok {
				*out = append(*out, acc{class: cls, addr: e, write: writes[e]})
			}
		case *ast.Ident:
			obj := info.Uses[e]
			v, ok := obj.(*types.Var)
			if !ok || v.IsField() || v.Pkg() == nil {
				return true
			}
			if v.Parent() == v.Pkg().Scope() {
				*out = append(*out, acc{class: "global." + v.Name(), addr: e, write: writes[e]})
				return true
			}
			if len(lits) > 0 {
				lit := lits[len(lits)-1]
				if v.Pos() < lit.Pos() || v.Pos() > lit.End() {
					*out = append(*out, acc{class: "captured." + v.Name(), addr: e, write: writes[e]})
				}
			}
		}
		return true
	})
}

func insertAccess(fd *ast.FuncDecl, fname string, info *types.Info, fset *token.FileSet) {
	ord := 0
	var lits []*ast.FuncLit
	var processList func(list []ast.Stmt) []ast.Stmt
	var walk func(n ast.Node)
	processList = func(list []ast.Stmt) []ast.Stmt {
		var res []ast.Stmt
		for _, st := range list {
			if cc, ok := st.(*ast.CaseClause); ok {
				cc.Body = processList(cc.Body)
				res = append(res, st)
				continue
			}
			if cc, ok := st.(*ast.CommClause); ok {
				cc.Body = processList(cc.Body)
				res = append(res, st)
				continue
			}
			writes := map[ast.Expr]bool{}
			switch a := st.(type) {
			case *ast.AssignStmt:
				if a.Tok != token.DEFINE {
					for _, l := range a.Lhs {
						writes[l] = true
					}
				}
			case *ast.IncDecStmt:
				writes[a.X] = true
			case *ast.ExprStmt:
				// delete(x.f, k)
				if ce, ok := a.X.(*ast.CallExpr); ok {
					if fi, ok := ce.Fun.(*ast.Ident); ok && fi.Name == "delete" && len(ce.Args) == 2 {
						writes[ce.Args[0]] = true
					}
				}
			}
			var accs []acc
			switch c := st.(type) {
			case *ast.IfStmt:
				if c.Init != nil {
					collect(c.Init, info, lits, writes, &accs)
				}
				collect(c.Cond, info, lits, writes, &accs)
			case *ast.RangeStmt:
				collect(c.X, info, lits, writes, &accs)
			case *ast.SwitchStmt:
				if c.Tag != nil {
					collect(c.Tag, info, lits, writes, &accs)
				}
			case *ast.ForStmt, *ast.TypeSwitchStmt, *ast.BlockStmt, *ast.SelectStmt, *ast.LabeledStmt:
			default:
				collect(st, info, lits, writes, &accs)
			}
			seen := map[string]bool{}
			for _, a := range accs {
				k := fmt.Sprint(a.class, a.write, exprString(fset, a.addr))
				if seen[k] {
					continue
				}
				seen[k] = true
				site := fmt.Sprintf("%s@%d", fname, ord)
				ord++
				sites = append(sites, siteInfo{site, fset.Position(st.Pos()).String(), "access:" + a.class})
				var body ast.Expr = id("nil")
				if a.raw {
					body = a.addr
				} else if addressable(a.addr, info) {
					body = &ast.UnaryExpr{Op: token.AND, X: a.addr}
				}
				thunk := &ast.FuncLit{
					Type: &ast.FuncType{Params: &ast.FieldList{}, Results: &ast.FieldList{List: []*ast.Field{{Type: &ast.InterfaceType{Methods: &ast.FieldList{}}}}}},
					Body: &ast.BlockStmt{List: []ast.Stmt{&ast.ReturnStmt{Results: []ast.Expr{body}}}},
				}
				w := "false"
				if a.write {
					w = "true"
				}
				res = append(res, &ast.ExprStmt{X: rtCall("Access", str(a.class), thunk, id(w), str(site))})
			}
			walk(st)
			res = append(res, st)
		}
		return res
	}
	walk = func(n ast.Node) {
		ast.Inspect(n, func(x ast.Node) bool {
			switch b := x.(type) {
			case *ast.FuncLit:
				lits = append(lits, b)
				b.Body.List = processList(b.Body.List)
				lits = lits[:len(lits)-1]
				return false
			case *ast.BlockStmt:
				if x == n {
					return true
				}
				b.List = processList(b.List)
				return false
			case *ast.CaseClause:
				b.Body = processList(b.Body)
				return false
			case *ast.CommClause:
				b.Body = processList(b.Body)
				return false
			}
			return true
		})
	}
	fd.Body.List = processList(fd.Body.List)
}

func exprString(fset *token.FileSet, e ast.Expr) string {
	var b bytes.Buffer
	printer.Fprint(&b, fset, e)
	return b.String()
}

// addressable approximates Go's addressability for the expressions we hook.
func addressable(e ast.Expr, info *types.Info) bool {
	switch x := e.(type) {
	case *ast.Ident:
		return true
	case *ast.ParenExpr:
		return addressable(x.X, info)
	case *ast.IndexExpr:
		t := info.TypeOf(x.X)
		if t == nil {
			return false
		}
		switch t.Underlying().(type) {
		case *types.Slice:
			return true
		case *types.Array:
			return addressable(x.X, info)
		}
		return false
	case *ast.StarExpr:
		return true
	case *ast.SelectorExpr:
		tv, ok := info.Types[x.X]
		if !ok {
			return false
		}
		if tv.Type == nil {
			return false
		}
		if _, ok := tv.Type.Underlying().(*types.Pointer); ok {
			return true
		}
		return addressable(x.X, info) && tv.Addressable()
	}
	return false
}
