package harness

import (
	"encoding/json"
	"fmt"
	"sort"
	"strings"

	"github.com/hashicorp/go-argmapper/internal/graph"
	"github.com/hashicorp/go-argmapper/internal/verifrt"
)

// C19: explicit-state exploration of graph mutations on the real Graph.
//
// State = (initialised?, present hash codes, representative object per code, weight per
// ordered pair in {absent,1,2}), canonicalised as a string. The reference model is a
// plain adjacency matrix. Every operation is applied to the real Graph rebuilt from
// the state and read back through the public API; Copy/Reverse obligations are checked
// for every (state, operation).

type hv struct {
	code string
	rep  int
}

func (h *hv) Hashcode() interface{} { return h.code }
func (h *hv) String() string        { return h.code }

var hvObjs = map[string][2]*hv{}

func hvOf(code string, rep int) *hv {
	o, ok := hvObjs[code]
	if !ok {
		o = [2]*hv{{code, 0}, {code, 1}}
		hvObjs[code] = o
	}
	return o[rep]
}

// GState is the model state.
type GState struct {
	Init bool           `json:"init"`
	Rep  map[string]int `json:"rep"` // present codes -> representative
	W    map[string]int `json:"w"`   // "A>B" -> weight
}

func (s GState) clone() GState {
	n := GState{Init: s.Init, Rep: map[string]int{}, W: map[string]int{}}
	for k, v := range s.Rep {
		n.Rep[k] = v
	}
	for k, v := range s.W {
		n.W[k] = v
	}
	return n
}

func (s GState) Key() string {
	var ks []string
	for c, r := range s.Rep {
		ks = append(ks, fmt.Sprintf("%s%d", c, r))
	}
	sort.Strings(ks)
	var es []string
	for e, w := range s.W {
		es = append(es, fmt.Sprintf("%s:%d", e, w))
	}
	sort.Strings(es)
	return fmt.Sprintf("%v|%s|%s", s.Init, strings.Join(ks, ","), strings.Join(es, ","))
}

// GOp is one operation of the menu.
type GOp struct {
	Op  string `json:"op"`
	U   string `json:"u"`
	V   string `json:"v,omitempty"`
	Rep int    `json:"rep,omitempty"`
}

func (o GOp) String() string {
	switch o.Op {
	case "Add", "AddOverwrite":
		return fmt.Sprintf("%s(%s#%d)", o.Op, o.U, o.Rep)
	case "Remove":
		return fmt.Sprintf("Remove(%s)", o.U)
	}
	return fmt.Sprintf("%s(%s,%s)", o.Op, o.U, o.V)
}

// mirror returns the operation whose effect on g equals applying o to g.Reverse().
func (o GOp) mirror() GOp {
	switch o.Op {
	case "AddEdge", "AddEdgeWeighted", "AddEdgeWeighted0", "RemoveEdge":
		return GOp{Op: o.Op, U: o.V, V: o.U}
	}
	return o
}

// applyModel is the boring reference: a map-based adjacency matrix.
func applyModel(s GState, o GOp) GState {
	n := s.clone()
	switch o.Op {
	case "Add":
		n.Init = true
		if _, ok := n.Rep[o.U]; !ok {
			n.Rep[o.U] = o.Rep
		}
	case "AddOverwrite":
		n.Init = true
		n.Rep[o.U] = o.Rep
	case "AddEdge":
		n.Init = true
		n.W[o.U+">"+o.V] = 1
	case "AddEdgeWeighted":
		n.Init = true
		n.W[o.U+">"+o.V] = 2
	case "AddEdgeWeighted0":
		n.Init = true
		n.W[o.U+">"+o.V] = 0
	case "RemoveEdge":
		n.Init = true
		delete(n.W, o.U+">"+o.V)
	case "Remove":
		delete(n.Rep, o.U)
		for e := range n.W {
			p := strings.Split(e, ">")
			if p[0] == o.U || p[1] == o.U {
				delete(n.W, e)
			}
		}
	}
	return n
}

func applyReal(g *graph.Graph, o GOp) {
	switch o.Op {
	case "Add":
		g.Add(hvOf(o.U, o.Rep))
	case "AddOverwrite":
		g.AddOverwrite(hvOf(o.U, o.Rep))
	case "AddEdge":
		g.AddEdge(hvOf(o.U, 0), hvOf(o.V, 1))
	case "AddEdgeWeighted":
		g.AddEdgeWeighted(hvOf(o.U, 1), hvOf(o.V, 0), 2)
	case "AddEdgeWeighted0":
		g.AddEdgeWeighted(hvOf(o.U, 0), hvOf(o.V, 1), 0)
	case "RemoveEdge":
		g.RemoveEdge(hvOf(o.U, 0), hvOf(o.V, 0))
	case "Remove":
		g.Remove(hvOf(o.U, 1))
	}
}

// buildReal rebuilds a fresh Graph canonically from the state.
func buildReal(s GState, codes []string) *graph.Graph {
	var g graph.Graph
	if s.Init && len(s.Rep) == 0 {
		g.Add(hvOf("A", 0))
		g.Remove(hvOf("A", 0))
	}
	for _, c := range codes {
		if r, ok := s.Rep[c]; ok {
			g.Add(hvOf(c, r))
		}
	}
	var es []string
	for e := range s.W {
		es = append(es, e)
	}
	sort.Strings(es)
	for _, e := range es {
		p := strings.Split(e, ">")
		g.AddEdgeWeighted(hvOf(p[0], 0), hvOf(p[1], 0), s.W[e])
	}
	return &g
}

// readBack observes a Graph through its public API only; problems are appended to errs.
func readBack(g *graph.Graph, codes []string, errs *[]string) GState {
	s := GState{Rep: map[string]int{}, W: map[string]int{}}
	bad := func(m string, a ...interface{}) { *errs = append(*errs, fmt.Sprintf(m, a...)) }
	for _, v := range g.Vertices() {
		h, ok := v.(*hv)
		if !ok {
			bad("Vertices() returned %v", v)
			continue
		}
		if _, dup := s.Rep[h.code]; dup {
			bad("Vertices() lists code %s twice", h.code)
		}
		s.Rep[h.code] = h.rep
	}
	for _, c := range codes {
		v := g.Vertex(c)
		if r, ok := s.Rep[c]; ok {
			if h, ok2 := v.(*hv); !ok2 || h.rep != r {
				bad("Vertex(%s) disagrees with Vertices()", c)
			}
		} else if v != nil {
			bad("Vertex(%s) non-nil for an absent vertex", c)
		}
	}
	outW := parseGraphString(g.String(), errs)
	inW := parseGraphString(g.Reverse().String(), errs)
	// the successors / predecessors reported for every vertex
	for _, c := range codes {
		outs := codeSet(g.OutEdges(hvOf(c, 0)), errs, "OutEdges("+c+")")
		ins := codeSet(g.InEdges(hvOf(c, 1)), errs, "InEdges("+c+")")
		for d := range outs {
			if _, ok := outW[c+">"+d]; !ok {
				bad("OutEdges(%s) lists %s but String() shows no such edge", c, d)
			}
			s.W[c+">"+d] = outW[c+">"+d]
		}
		for e := range outW {
			p := strings.Split(e, ">")
			if p[0] == c && !outs[p[1]] {
				bad("String() shows edge %s missing from OutEdges(%s)", e, c)
			}
		}
		for d := range ins {
			// predecessors must mirror successors, with the same weight
			w, ok := inW[c+">"+d]
			if !ok {
				bad("InEdges(%s) lists %s but the reversed view shows no such edge", c, d)
			}
			if ow, ok2 := outW[d+">"+c]; !ok2 || ow != w {
				bad("predecessor %s of %s (weight %d) is not mirrored by a successor entry (present=%v weight %d)", d, c, w, ok2, ow)
			}
		}
		for d := range outs {
			if iw, ok := inW[d+">"+c]; !ok || iw != outW[c+">"+d] {
				bad("successor %s of %s (weight %d) is not mirrored by a predecessor entry (present=%v weight %d)", d, c, outW[c+">"+d], ok, iw)
			}
		}
	}
	for e := range s.W {
		p := strings.Split(e, ">")
		if _, ok := s.Rep[p[0]]; !ok {
			bad("edge %s from an absent vertex", e)
		}
		if _, ok := s.Rep[p[1]]; !ok {
			bad("edge %s to an absent vertex", e)
		}
	}
	return s
}

func codeSet(vs []graph.Vertex, errs *[]string, what string) map[string]bool {
	r := map[string]bool{}
	for _, v := range vs {
		h, ok := v.(*hv)
		if !ok {
			*errs = append(*errs, fmt.Sprintf("%s contains %v", what, v))
			continue
		}
		if r[h.code] {
			*errs = append(*errs, fmt.Sprintf("%s lists %s twice", what, h.code))
		}
		r[h.code] = true
	}
	return r
}

// parseGraphString parses Graph.String(): "name\n  dep (w)\n".
func parseGraphString(str string, errs *[]string) map[string]int {
	res := map[string]int{}
	cur := ""
	for _, line := range strings.Split(str, "\n") {
		if line == "" {
			continue
		}
		if strings.HasPrefix(line, "  ") {
			var dep string
			var w int
			if _, err := fmt.Sscanf(strings.TrimSpace(line), "%s (%d)", &dep, &w); err != nil {
				*errs = append(*errs, "cannot parse String() line "+line)
				continue
			}
			res[cur+">"+dep] = w
		} else {
			cur = strings.TrimSpace(line)
		}
	}
	return res
}

func sameState(a, b GState, ignoreInit bool) bool {
	if !ignoreInit && a.Init != b.Init {
		return false
	}
	a.Init, b.Init = false, false
	return a.Key() == b.Key()
}

// GCase is one (state, path) unit of work: every operation of the menu is checked.
type GCase struct {
	Codes []string `json:"codes"`
	State GState   `json:"state"`
	Path  []GOp    `json:"path"`
	Op    *GOp     `json:"op,omitempty"` // replay: only this operation
}

// zeroWeights adds weight 0 to the alphabet (size-0 space only: 4^(k*k) edge states).
var zeroWeights = false

func opMenu(codes []string, s GState) []GOp {
	var ops []GOp
	for _, c := range codes {
		for rep := 0; rep < 2; rep++ {
			ops = append(ops, GOp{Op: "Add", U: c, Rep: rep}, GOp{Op: "AddOverwrite", U: c, Rep: rep})
		}
		ops = append(ops, GOp{Op: "Remove", U: c})
	}
	for _, u := range codes {
		for _, v := range codes {
			ops = append(ops, GOp{Op: "RemoveEdge", U: u, V: v})
			_, pu := s.Rep[u]
			_, pv := s.Rep[v]
			if pu && pv { // documented precondition of AddEdge*
				ops = append(ops, GOp{Op: "AddEdge", U: u, V: v}, GOp{Op: "AddEdgeWeighted", U: u, V: v})
				if zeroWeights {
					ops = append(ops, GOp{Op: "AddEdgeWeighted0", U: u, V: v})
				}
			}
		}
	}
	return ops
}

// checkGCase checks every operation on the state; transitions counts (state,op) pairs.
func checkGCase(c GCase, transitions *int) (fs []Finding) {
	add := func(clause, m string, a ...interface{}) {
		fs = append(fs, Finding{"C19", clause, fmt.Sprintf(m, a...)})
	}
	cur := "setup"
	defer func() {
		if r := recover(); r != nil {
			if _, ok := r.(verifrt.HarnessError); ok {
				panic(r)
			}
			add("panic", "panic during %s: %v", cur, r)
		}
	}()
	verifrt.ResetBudget()
	s := c.State
	// differential: the state reached by its BFS path from the zero Graph reads back
	// like the canonical rebuild
	var e0 []string
	canon := readBack(buildReal(s, c.Codes), c.Codes, &e0)
	if len(e0) > 0 || !sameState(canon, s, true) {
		add("rebuild", "canonical rebuild of %s reads back as %s %v", s.Key(), canon.Key(), e0)
		return
	}
	var gp graph.Graph
	for _, o := range c.Path {
		applyReal(&gp, o)
	}
	var e1 []string
	viaPath := readBack(&gp, c.Codes, &e1)
	if len(e1) > 0 || !sameState(viaPath, s, true) {
		add("path-differs", "state reached by %v reads back as %s %v, model says %s", c.Path, viaPath.Key(), e1, s.Key())
	}
	ops := opMenu(c.Codes, s)
	if c.Op != nil {
		ops = []GOp{*c.Op}
	}
	for _, o := range ops {
		if transitions != nil {
			*transitions++
		}
		cur = o.String()
		want := applyModel(s, o)
		// 1. the operation itself
		g := buildReal(s, c.Codes)
		applyReal(g, o)
		var errs []string
		got := readBack(g, c.Codes, &errs)
		if len(errs) > 0 {
			add("inconsistent:"+o.Op, "after %s on %s: %s", o, s.Key(), strings.Join(errs, "; "))
		} else if !sameState(got, want, true) {
			add("model:"+o.Op, "after %s on %s the graph reads back as %s, the adjacency model says %s", o, s.Key(), got.Key(), want.Key())
		}
		// ... and the graph keeps agreeing with the model through further operations
		// (state that the canonical rebuild would lose must not matter)
		cur1 := want
		for _, fo := range followUps(c.Codes) {
			applyReal(g, fo)
			cur1 = applyModel(cur1, fo)
			errs = nil
			if o6 := readBack(g, c.Codes, &errs); len(errs) > 0 || !sameState(o6, cur1, true) {
				add("follow-up:"+o.Op, "after %s, then %s on %s the graph reads back as %s %v, the adjacency model says %s", o, fo, s.Key(), o6.Key(), errs, cur1.Key())
				break
			}
		}
		// 2. copies are independent (both directions)
		g = buildReal(s, c.Codes)
		cp := g.Copy()
		applyReal(cp, o)
		errs = nil
		if o1 := readBack(g, c.Codes, &errs); len(errs) > 0 || !sameState(o1, s, true) {
			add("copy-leaks:"+o.Op, "%s on a copy of %s changed the original to %s %v", o, s.Key(), o1.Key(), errs)
		}
		errs = nil
		if c1 := readBack(cp, c.Codes, &errs); len(errs) > 0 || !sameState(c1, want, true) {
			add("copy-wrong:"+o.Op, "%s on a copy of %s reads back as %s %v, want %s", o, s.Key(), c1.Key(), errs, want.Key())
		}
		g = buildReal(s, c.Codes)
		cp = g.Copy()
		applyReal(g, o)
		errs = nil
		if c2 := readBack(cp, c.Codes, &errs); len(errs) > 0 || !sameState(c2, s, true) {
			add("copy-follows:"+o.Op, "%s on %s changed an earlier copy to %s %v", o, s.Key(), c2.Key(), errs)
		}
		// 3. a reversed view shares state; reversing twice is the identity
		g = buildReal(s, c.Codes)
		r := g.Reverse()
		applyReal(r, o)
		wantM := applyModel(s, o.mirror())
		errs = nil
		if o2 := readBack(g, c.Codes, &errs); len(errs) > 0 || !sameState(o2, wantM, true) {
			add("reverse-shares:"+o.Op, "%s on the reversed view of %s leaves the original as %s %v, want the mirrored effect %s", o, s.Key(), o2.Key(), errs, wantM.Key())
		}
		// ... and keeps sharing it: further operations through the same view (obtained
		// before the first one) still show in the original, and operations on the original
		// show mirrored in a view obtained earlier
		cur2 := wantM
		for _, fo := range followUps(c.Codes) {
			applyReal(r, fo)
			cur2 = applyModel(cur2, fo.mirror())
			errs = nil
			if o5 := readBack(g, c.Codes, &errs); len(errs) > 0 || !sameState(o5, cur2, true) {
				add("reverse-detached:"+o.Op, "after %s, then %s, both on one reversed view of %s, the original reads back as %s %v, want %s", o, fo, s.Key(), o5.Key(), errs, cur2.Key())
				break
			}
		}
		g = buildReal(s, c.Codes)
		r = g.Reverse()
		applyReal(g, o)
		cur3 := want
		for _, fo := range append([]GOp{{Op: "nop"}}, followUps(c.Codes)...) {
			if fo.Op != "nop" {
				applyReal(g, fo)
				cur3 = applyModel(cur3, fo)
			}
			errs = nil
			got := readBack(r.Reverse(), c.Codes, &errs) // the view, read back in the original's orientation
			if len(errs) > 0 || !sameState(got, cur3, true) {
				add("reverse-stale:"+o.Op, "after %s (then %s) on %s, a reversed view taken before reads back (re-reversed) as %s %v, want %s", o, fo, s.Key(), got.Key(), errs, cur3.Key())
				break
			}
		}
		g = buildReal(s, c.Codes)
		rr := g.Reverse().Reverse()
		errs = nil
		if o3 := readBack(rr, c.Codes, &errs); len(errs) > 0 || !sameState(o3, s, true) {
			add("reverse-twice", "Reverse().Reverse() of %s reads back as %s %v", s.Key(), o3.Key(), errs)
		}
		applyReal(rr, o)
		errs = nil
		if o4 := readBack(g, c.Codes, &errs); len(errs) > 0 || !sameState(o4, want, true) {
			add("reverse-twice:"+o.Op, "%s on Reverse().Reverse() of %s leaves the original as %s %v, want %s", o, s.Key(), o4.Key(), errs, want.Key())
		}
	}
	return
}

// followUps: operations applied after the one under test, through the same view.
func followUps(codes []string) []GOp {
	return []GOp{{Op: "Add", U: codes[0], Rep: 0}, {Op: "Add", U: codes[1], Rep: 1}, {Op: "AddEdge", U: codes[0], V: codes[1]}}
}

// bfsStates enumerates the reachable model states breadth-first from the zero Graph.
func bfsStates(codes []string, visit func(idx int, s GState, path []GOp, depth int)) (states, maxDepth int) {
	type node struct {
		s    GState
		path []GOp
	}
	zero := GState{Rep: map[string]int{}, W: map[string]int{}}
	seen := map[string]bool{zero.Key(): true}
	frontier := []node{{zero, nil}}
	idx := 0
	for depth := 0; len(frontier) > 0; depth++ {
		maxDepth = depth
		var next []node
		for _, n := range frontier {
			visit(idx, n.s, n.path, depth)
			idx++
			for _, o := range opMenu(codes, n.s) {
				ns := applyModel(n.s, o)
				k := ns.Key()
				if !seen[k] {
					seen[k] = true
					next = append(next, node{ns, append(append([]GOp{}, n.path...), o)})
				}
			}
		}
		frontier = next
	}
	return len(seen), maxDepth
}

func init() {
	CaseTiers["graph-state"] = &CaseTier{Name: "graph-state",
		Doc: "explicit-state BFS from the zero Graph over Add/AddOverwrite (2 representative objects per hash code)/AddEdge/AddEdgeWeighted/RemoveEdge/Remove; in every state every operation is applied to the real Graph (and to its Copy and Reverse) and read back through Vertices/Vertex/OutEdges/InEdges/String against an adjacency-matrix model",
		Run: func(st Step, pick func(int) bool, stats *Stats, emit func(Replay)) {
			// size 0: {A,B}, weights {absent,1,2}; size 1: {A,B,C}; size 2: {A,B} with weight 0 too
			codes := []string{"A", "B"}
			zeroWeights = st.Size == 2
			if st.Size == 1 {
				codes = []string{"A", "B", "C"}
			}
			states, maxDepth := bfsStates(codes, func(idx int, s GState, path []GOp, depth int) {
				if !pick(idx) {
					return
				}
				c := GCase{Codes: codes, State: s, Path: path}
				stats.Scenarios++
				stats.Premise++
				stats.Nontrivial++
				if depth >= 3 {
					noteSample(func() string {
						return fmt.Sprintf("state %s reached by %v; operations checked: %v", s.Key(), path, opMenu(codes, s))
					})
				}
				// the order dimension is explored per (state, operation): the choice
				// points of one operation's check are independent of another's
				for _, o := range opMenu(codes, s) {
					o := o
					c.Op = &o
					stats.Points++ // one transition of the state graph
					var cur []Finding
					seen := map[string]bool{}
					e := &OrderExplorer{Bound: st.Bound, Run: func() { cur = checkGCase(c, nil) }, Visit: func(choices []int, reverse bool, pts []point) {
						for _, f := range cur {
							if seen[f.Clause] {
								continue
							}
							seen[f.Clause] = true
							b, _ := json.Marshal(c)
							emit(Replay{Property: "C19", Clause: f.Clause, Msg: f.Msg, Engine: "graph-state", Tier: st.Tier, Extra: b, Choices: trimZeros(choices), Reverse: reverse, Observed: f.Msg})
						}
					}}
					e.Explore()
					stats.Execs += e.Execs
				}
			})
			stats.OutcomeHist[fmt.Sprintf("states=%d depth=%d", states, maxDepth)] = 1
		},
		Replay: func(r Replay) []Finding {
			var c GCase
			if err := json.Unmarshal(r.Extra, &c); err != nil {
				panic(HarnessPanic{"bad graph-state case: " + err.Error()})
			}
			var fs []Finding
			OrderRun(r.Choices, r.Reverse, nil, func() { fs = checkGCase(c, nil) })
			fmt.Printf("state: %s path=%v\n", c.State.Key(), c.Path)
			return fs
		},
	}
	Plans["C19"] = map[string][]Step{
		"quick":    {{Tier: "graph-state", Size: 0, Bound: 1}, {Tier: "graph-state", Size: 2, Bound: 0}},
		"thorough": {{Tier: "graph-state", Size: 0, Bound: 2}, {Tier: "graph-state", Size: 2, Bound: 1}, {Tier: "graph-state", Size: 1, Bound: 0}},
	}
}
