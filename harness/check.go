package harness

import (
	"encoding/json"
	"fmt"
	"os"
	"path/filepath"
	"sort"
	"strconv"
	"strings"
	"time"
)

// VerifDir is where evidence/replays/known findings live.
func VerifDir() string {
	if d := os.Getenv("VERIF_DIR"); d != "" {
		return d
	}
	return "/verif"
}

// OutDir is where evidence and replays are written (VERIF_OUT_DIR redirects them when a
// scratch copy of the library is being checked during development, so that the
// committed evidence always comes from /repo itself).
func OutDir() string {
	if d := os.Getenv("VERIF_OUT_DIR"); d != "" {
		return d
	}
	return VerifDir()
}

// KnownFinding identifies a recorded genuine defect by property, violated clause and
// a scenario predicate, so that a different violation of the same property still alarms.
type KnownFinding struct {
	Status    string `json:"status"` // "open" (suppresses, prints KNOWN-FINDING) | "fixed" (suppresses nothing)
	Property  string `json:"property"`
	Clause    string `json:"clause,omitempty"`    // prefix match on the violated clause
	Predicate string `json:"predicate,omitempty"` // named scenario predicate (see predicates.go)
	What      string `json:"what"`
	Commit    string `json:"commit,omitempty"`
	Witness   string `json:"witness,omitempty"`
}

func loadKnown() []KnownFinding {
	b, err := os.ReadFile(filepath.Join(VerifDir(), "known_findings.json"))
	if err != nil {
		return nil
	}
	var f struct {
		Findings []KnownFinding `json:"findings"`
	}
	if json.Unmarshal(b, &f) != nil {
		return nil
	}
	return f.Findings
}

func matchKnown(kfs []KnownFinding, r Replay) *KnownFinding {
	for i, k := range kfs {
		if k.Status != "open" || k.Property != r.Property {
			continue
		}
		if k.Clause != "" && !strings.HasPrefix(r.Clause, k.Clause) {
			continue
		}
		if k.Predicate != "" {
			p, ok := Predicates[k.Predicate]
			if !ok || !p(r) {
				continue
			}
		}
		return &kfs[i]
	}
	return nil
}

// RunCheck runs a property check and returns the process exit status.
func RunCheck(self, prop, mode string) int {
	Init()
	t0 := time.Now()
	if custom, ok := CustomChecks[prop]; ok {
		return custom(self, prop, mode)
	}
	steps, ok := Plans[prop][mode]
	if !ok {
		fmt.Fprintf(os.Stderr, "no plan for %s %s\n", prop, mode)
		return 2
	}
	tmp, err := os.MkdirTemp("", "vcheck-run-")
	if err != nil {
		fmt.Fprintln(os.Stderr, err)
		return 2
	}
	defer os.RemoveAll(tmp)
	res := &RunResult{Stats: newStats()}
	var stepInfo []map[string]interface{}
	for i, st := range steps {
		if only := os.Getenv("VERIF_ONLY_STEP"); only != "" && only != strconv.Itoa(i) { // development only
			continue
		}
		before := *res.Stats
		ts := time.Now()
		if err := RunStep(self, prop, i, mode, st, tmp, res); err != nil {
			fmt.Fprintln(os.Stderr, "HARNESS ERROR:", err)
			return 2
		}
		info := map[string]interface{}{"tier": st.Tier, "size": st.Size, "doc": tierDoc(st.Tier), "order_bound": st.Bound, "bound2_active_sites": st.Bound2,
			"scenarios": res.Stats.Scenarios - before.Scenarios, "executions": res.Stats.Execs - before.Execs, "wall_s": time.Since(ts).Seconds()}
		stepInfo = append(stepInfo, info)
		fmt.Printf("%s %s step %d tier=%s bound=%d%s: %d scenarios, %d executions, %.1fs\n", prop, mode, i, st.Tier, st.Bound, map[bool]string{true: "+2@active", false: ""}[st.Bound2],
			res.Stats.Scenarios-before.Scenarios, res.Stats.Execs-before.Execs, time.Since(ts).Seconds())
	}
	rule := "scenario x map-iteration-order executions of the real library (deviation-bounded stateless DFS)"
	if prop == "C11" || prop == "C12" {
		rule = "schedules: every interleaving of the threads within the preemption bound, under a cooperative scheduler over hooked shared-memory accesses, body yields and lock acquires of the real library (plus, for C11, sequential histories x map orders); states = executions (distinct schedules / choice sequences), transitions = scheduling + choice points"
		ts := time.Now()
		var fds []Replay
		var cases int
		var err error
		if os.Getenv("VERIF_SKIP_RACE") == "1" { // development only: never set by registered commands
			fmt.Println("race pass skipped (VERIF_SKIP_RACE=1)")
		} else {
			fds, cases, err = RacePass(prop, mode, tmp)
		}
		if err != nil {
			fmt.Fprintln(os.Stderr, "HARNESS ERROR:", err)
			return 2
		}
		res.Findings = append(res.Findings, fds...)
		res.RaceCases = cases
		stepInfo = append(stepInfo, map[string]interface{}{"tier": "race-pass", "doc": "free-running -race pass over the same cases on the plain build (4 repetitions each, real goroutines released together)", "cases": cases, "reports": len(fds), "wall_s": time.Since(ts).Seconds()})
		fmt.Printf("%s %s race pass: %d cases x 4 repetitions on the plain -race build, %d reports, %.1fs\n", prop, mode, cases, len(fds), time.Since(ts).Seconds())
	}
	return Conclude(prop, mode, res, stepInfo, t0, rule)
}

// Conclude prints the verdict lines, writes evidence and returns the exit status.
func Conclude(prop, mode string, res *RunResult, stepInfo []map[string]interface{}, t0 time.Time, rule string) int {
	kfs := loadKnown()
	// deduplicate findings by clause; keep the smallest witness per clause
	byClause := map[string][]Replay{}
	for _, r := range res.Findings {
		byClause[r.Clause] = append(byClause[r.Clause], r)
	}
	var clauses []string
	for c := range byClause {
		clauses = append(clauses, c)
	}
	sort.Strings(clauses)
	violations := 0
	knownPrinted := map[string]bool{}
	for _, c := range clauses {
		rs := byClause[c]
		sort.SliceStable(rs, func(i, j int) bool { return replaySize(rs[i]) < replaySize(rs[j]) })
		var unknown []Replay
		for _, r := range rs {
			if k := matchKnown(kfs, r); k != nil {
				if !knownPrinted[k.What] {
					knownPrinted[k.What] = true
					fmt.Printf("KNOWN-FINDING: property=%s %s\n", prop, k.What)
				}
				continue
			}
			unknown = append(unknown, r)
		}
		if len(unknown) == 0 {
			continue
		}
		violations += len(unknown)
		r := unknown[0]
		path := WriteReplay(OutDir(), r)
		fmt.Printf("VIOLATION property=%s replay=%s\n", prop, path)
		fmt.Printf("  clause=%s (%d witnesses) %s\n  scenario: %s\n  choices=%v reverse=%v\n", r.Clause, len(unknown), r.Msg, scenarioString(r), r.Choices, r.Reverse)
	}
	st := res.Stats
	seed, _ := strconv.Atoi(os.Getenv("VERIF_SEED"))
	samples := []interface{}{}
	for _, s := range res.Samples {
		samples = append(samples, s)
	}
	if len(samples) == 0 {
		samples = append(samples, "(no sample emitted)")
	}
	states, transitions := st.Execs, st.Points
	if prop == "C19" {
		// explicit-state search: distinct canonical states and (state, operation) transitions
		states = st.Scenarios
		rule = "explicit-state BFS over canonical graph states from the zero Graph; every (state, operation) transition executed on the real Graph under every explored iteration order; states = distinct canonical states, transitions = (state, operation) pairs, evaluations = executions (transition x order)"
	}
	if transitions == 0 {
		transitions = st.Execs
	}
	cov := map[string]interface{}{
		"states":                         states,
		"transitions":                    transitions,
		"traces_validated_against_impl":  st.Execs,
		"evaluations":                    st.Execs,
		"distinct_nontrivial":            st.Nontrivial,
		"rule":                           rule + "; states = distinct (scenario, choice-sequence) executions; transitions = map-order choice points taken; non-trivial = scenario in which the property's premise held and user code ran or an error was judged",
		"samples":                        samples,
		"exhaustive":                     st.Classes["early_stop_shards"] == 0 && st.Classes["capped"] == 0,
		"scenarios":                      st.Scenarios,
		"scenarios_premise_held":         st.Premise,
		"max_choice_points_per_exec":     st.MaxPoints,
		"distinct_outcomes_per_scenario": st.OutcomeHist,
		"outcome_classes":                st.Classes,
		"steps":                          stepInfo,
		"sites_met":                      len(st.Sites),
		"active_sites":                   keys(st.ActiveSites),
		"maps_grown_during_range":        st.Grown,
		"budget_high_water":              map[string]int{"steps": st.StepsSeen, "activations": st.ActiveSeen, "max_steps": maxSteps, "max_activations": maxActive},
		"worker_crashes":                 res.Crashes,
		"construct_errors":               st.BuildErrs,
		"findings_total":                 len(res.Findings),
	}
	ev := Evidence{PropertyID: prop, Tier: mode, Seed: seed, Level: "model_checking", Coverage: cov, WallS: time.Since(t0).Seconds(), Violations: violations,
		Assumptions: []string{
			"the vinst overlay (range-over-map rewriting, budgets) preserves the library's behaviour: the repository's suite passes on the instrumented build (setup_cmd)",
			"map iteration orders are explored within the stated deviation bound of sorted order, with a reduced permutation family above 4 keys",
			"labels/types outside the alphabet (carrier structs T0-T3, interface Iface, names a/b/c, subtypes x/y) are not covered",
		}}
	if err := WriteEvidence(filepath.Join(OutDir(), "evidence"), ev); err != nil {
		fmt.Fprintln(os.Stderr, "cannot write evidence:", err)
		return 2
	}
	fmt.Printf("%s %s: %d scenarios (%d with premise, %d non-trivial), %d executions, %d choice points, outcomes/scenario=%v, %d violations, %.1fs\n",
		prop, mode, st.Scenarios, st.Premise, st.Nontrivial, st.Execs, st.Points, st.OutcomeHist, violations, time.Since(t0).Seconds())
	if violations > 0 {
		return 1
	}
	return 0
}

func tierDoc(name string) string {
	if t, ok := Tiers[name]; ok {
		return t.Doc
	}
	if t, ok := CaseTiers[name]; ok {
		return t.Doc
	}
	return ""
}

func keys(m map[string]int) []string {
	var r []string
	for k := range m {
		r = append(r, k)
	}
	sort.Strings(r)
	return r
}

func replaySize(r Replay) int {
	n := len(r.Choices) * 0
	for _, c := range r.Choices {
		if c != 0 {
			n += 100
		}
	}
	if r.Reverse {
		n += 50
	}
	if r.Scenario != nil {
		n += 10*len(r.Scenario.Convs) + 3*len(r.Scenario.Inputs) + len(r.Scenario.Target.In)
	}
	return n + len(r.Extra)/50
}

func scenarioString(r Replay) string {
	if r.Scenario != nil {
		return r.Scenario.String()
	}
	return string(r.Extra)
}

// CustomChecks are properties decided by engines other than the scenario sweep.
var CustomChecks = map[string]func(self, prop, mode string) int{}

// Predicates are named scenario predicates for known findings.
var Predicates = map[string]func(Replay) bool{}

// ReplayFile re-executes exactly one recorded case; exit 1 if it still violates.
func ReplayFile(path string) int {
	Init()
	b, err := os.ReadFile(path)
	if err != nil {
		fmt.Fprintln(os.Stderr, err)
		return 2
	}
	var r Replay
	if err := json.Unmarshal(b, &r); err != nil {
		fmt.Fprintln(os.Stderr, err)
		return 2
	}
	if rp, ok := CustomReplays[r.Engine]; ok {
		return rp(r, path)
	}
	if ct, ok := CaseTiers[r.Engine]; ok {
		fs := ct.Replay(r)
		for _, f := range fs {
			fmt.Printf("  %s/%s: %s\n", f.Prop, f.Clause, f.Msg)
		}
		if len(fs) > 0 {
			fmt.Printf("VIOLATION property=%s replay=%s\n", r.Property, path)
			return 1
		}
		fmt.Println("no violation reproduced")
		return 0
	}
	var o Outcome
	OrderRun(r.Choices, r.Reverse, nil, func() { o = runAny(*r.Scenario) })
	fmt.Printf("scenario: %s\nchoices=%v reverse=%v\nobserved: %s\n", r.Scenario, r.Choices, r.Reverse, o.Key())
	if r.Clause == "unstable" {
		var o2 Outcome
		OrderRun(nil, false, nil, func() { o2 = runAny(*r.Scenario) })
		fmt.Printf("sorted order observes class %s; recorded order observes class %s\n", o2.Class(), o.Class())
		if o.Class() != o2.Class() {
			fmt.Printf("VIOLATION property=%s replay=%s\n", r.Property, path)
			return 1
		}
		return 0
	}
	fs := CheckExec(map[string]bool{r.Property: true}, *r.Scenario, o)
	if r.Scenario.Mode == "redefine" {
		fs = CheckRedef(map[string]bool{r.Property: true}, *r.Scenario, o, len(trimZeros(r.Choices)) == 0)
	}
	if r.Scenario.Mode == "convdiff" {
		fs = CheckConv(map[string]bool{r.Property: true}, *r.Scenario, o)
	}
	for _, f := range fs {
		fmt.Printf("  %s/%s: %s\n", f.Prop, f.Clause, f.Msg)
	}
	if len(fs) > 0 {
		fmt.Printf("VIOLATION property=%s replay=%s\n", r.Property, path)
		return 1
	}
	fmt.Println("no violation reproduced")
	return 0
}

var CustomReplays = map[string]func(Replay, string) int{}

// isSchedulerReplay reports whether a replay file needs the access-hook or -race build.
func isSchedulerReplay(path string) bool {
	b, err := os.ReadFile(path)
	if err != nil {
		return false
	}
	var r Replay
	if json.Unmarshal(b, &r) != nil {
		return false
	}
	return strings.HasPrefix(r.Engine, "conc-") || r.Engine == "race"
}
