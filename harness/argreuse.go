package harness

import (
	"encoding/json"
	"fmt"
	"sort"
	"strings"

	am "github.com/hashicorp/go-argmapper"
	"github.com/hashicorp/go-argmapper/internal/verifrt"
)

// argreuse tier (C16): sequential histories in which the caller keeps its option
// *values* (am.Arg) in variables and passes the same values to several calls, in
// different combinations. An option value is a description of one supplied key; what a
// call observes must depend only on the list of options given to that call — "the last
// occurrence of a key is the one injected", "what was not supplied is not there" — not
// on which other lists the same option values were part of earlier. Reference: the
// same history in which every use constructs its options afresh.

type argSpec struct {
	desc string
	mk   func(gen string) am.Arg
}

var argPool = []argSpec{
	{`Named(a, T0 n0)`, func(g string) am.Arg { return am.Named("a", T0{"n0" + g}) }},
	{`NamedSubtype(a, T0 sx, x)`, func(g string) am.Arg { return am.NamedSubtype("a", T0{"sx" + g}, "x") }},
	{`NamedSubtype(a, T0 sy, y)`, func(g string) am.Arg { return am.NamedSubtype("a", T0{"sy" + g}, "y") }},
	{`Named(A, T0 N1)`, func(g string) am.Arg { return am.Named("A", T0{"N1" + g}) }},
	{`Typed(T1 t1)`, func(g string) am.Arg { return am.Typed(T1{"t1" + g}) }},
	{`TypedSubtype(T1 tx, x)`, func(g string) am.Arg { return am.TypedSubtype(T1{"tx" + g}, "x") }},
	{`TypedSubtype(T1 ty, y)`, func(g string) am.Arg { return am.TypedSubtype(T1{"ty" + g}, "y") }},
	{`Typed(T1 u1, T0 u0)`, func(g string) am.Arg { return am.Typed(T1{"u1" + g}, T0{"u0" + g}) }},
}

// the probes: one single-parameter function per key the pool can set
var argProbes = []Label{
	{"a", 0, ""}, {"a", 0, "x"}, {"a", 0, "y"},
	{"", 1, ""}, {"", 1, "x"}, {"", 1, "y"}, {"", 0, ""},
}

type argReuseCase struct {
	Calls [][]int `json:"calls"` // per call: indexes into argPool, in order
}

func (c argReuseCase) String() string {
	var cs []string
	for _, l := range c.Calls {
		var n []string
		for _, i := range l {
			n = append(n, argPool[i].desc)
		}
		cs = append(cs, "Call("+strings.Join(n, ", ")+")")
	}
	return "[" + strings.Join(cs, "; ") + "]"
}

func runArgReuse(c argReuseCase, fresh bool) (obs []string, pan string) {
	defer func() {
		if r := recover(); r != nil {
			switch x := r.(type) {
			case verifrt.HarnessError:
				panic(HarnessPanic{x.Msg})
			case HarnessPanic:
				panic(x)
			}
			pan = firstLine(fmt.Sprint(r))
		}
	}()
	verifrt.ResetBudget()
	w := NewWorld()
	probes := make([]*am.Func, len(argProbes))
	for i, p := range argProbes {
		f, err := am.NewFunc(w.rawFunc(FuncSpec{ID: fmt.Sprintf("p%d", i), In: []Label{p}, InForm: FormStruct, Out: []Label{{"", 2, ""}}, OutForm: FormPositional}))
		if err != nil {
			panic(HarnessPanic{"argreuse: " + err.Error()})
		}
		probes[i] = f
	}
	// the caller's option values, built once (the provenance strings are the same in both
	// runs, so observations are comparable)
	kept := make([]am.Arg, len(argPool))
	for i, a := range argPool {
		kept[i] = a.mk("")
	}
	for ci, l := range c.Calls {
		for pi, p := range probes {
			args := make([]am.Arg, 0, len(l))
			for _, i := range l {
				if fresh {
					args = append(args, argPool[i].mk(""))
				} else {
					args = append(args, kept[i])
				}
			}
			r := p.Call(args...)
			e := fmt.Sprintf("call %d probe %s: %s", ci, argProbes[pi], errKey(w, r.Err()))
			if r.Err() == nil {
				for i := 0; i < r.Len(); i++ {
					e += " " + provOfIface(r.Out(i))
				}
			} else {
				// the report lists what was given: compare it as a set of lines
				ls := strings.Split(r.Err().Error(), "\n")
				sort.Strings(ls)
				e += " " + strings.Join(ls, "|")
			}
			obs = append(obs, e)
		}
	}
	return
}

func checkArgReuse(c argReuseCase) []Finding {
	shared, pan := runArgReuse(c, false)
	var ref []string
	var pan2 string
	WithPureChooser(func() { ref, pan2 = runArgReuse(c, true) })
	if pan != "" && pan2 == "" {
		return []Finding{{"C16", "argreuse-panic", fmt.Sprintf("history %s panicked when the option values are reused (%s), not when they are built afresh", c, pan)}}
	}
	for i := range shared {
		if i < len(ref) && shared[i] != ref[i] {
			return []Finding{{"C16", "argreuse", fmt.Sprintf("history %s: observes %q when the caller reuses its option values, %q when every call builds its options afresh", c, shared[i], ref[i])}}
		}
	}
	return nil
}

// argLists enumerates the ordered lists of distinct pool entries of length <= n.
func argLists(n int) [][]int {
	var out [][]int
	var rec func(cur []int)
	rec = func(cur []int) {
		out = append(out, append([]int{}, cur...))
		if len(cur) == n {
			return
		}
	next:
		for i := range argPool {
			for _, p := range cur {
				if p == i {
					continue next
				}
			}
			rec(append(cur, i))
		}
	}
	rec(nil)
	return out
}

func init() {
	// Step.Size = number of calls; Step.Bound = longest option list
	run := func(st Step, pick func(int) bool, stats *Stats, emit func(Replay)) {
		lists := argLists(st.Bound)
		idx := -1
		var rec func(cur [][]int)
		rec = func(cur [][]int) {
			if len(cur) == st.Size {
				idx++
				if !pick(idx) {
					return
				}
				c := argReuseCase{Calls: append([][]int{}, cur...)}
				stats.Scenarios++
				stats.Premise++
				stats.Nontrivial++
				noteSample(func() string { return c.String() })
				var fsCur []Finding
				seen := map[string]bool{}
				e := &OrderExplorer{Bound: 0, Run: func() { fsCur = checkArgReuse(c) }, Visit: func(choices []int, reverse bool, pts []point) {
					for _, f := range fsCur {
						if seen[f.Clause] {
							continue
						}
						seen[f.Clause] = true
						b, _ := json.Marshal(c)
						emit(Replay{Property: "C16", Clause: f.Clause, Msg: f.Msg, Engine: "argreuse-C16", Tier: st.Tier, Extra: b, Choices: trimZeros(choices), Reverse: reverse, Observed: f.Msg})
					}
				}}
				e.Explore()
				stats.Execs += e.Execs
				stats.Points += e.Points
				return
			}
			for _, l := range lists {
				if len(cur) == 0 && len(l) == 0 {
					continue
				}
				rec(append(cur, l))
			}
		}
		rec(nil)
	}
	replay := func(r Replay) []Finding {
		var c argReuseCase
		if err := json.Unmarshal(r.Extra, &c); err != nil {
			panic(HarnessPanic{"bad argreuse case: " + err.Error()})
		}
		var fs []Finding
		OrderRun(r.Choices, r.Reverse, nil, func() { fs = checkArgReuse(c) })
		fmt.Printf("history: %s\n", c)
		return fs
	}
	CaseTiers["argreuse-C16"] = &CaseTier{Name: "argreuse-C16", Doc: "all histories of Size calls whose option lists (ordered lists of <= Bound distinct entries of an 8-entry pool: Named / NamedSubtype / Typed / TypedSubtype incl. a casing variant and a two-value Typed) are made of option values the caller built once and reuses; after each call seven single-parameter probes are called with the same list; reference: the same history with options built afresh at every use", Run: run, Replay: replay}
}
