package harness

import "fmt"

func init() {
	// ---- redef (C08/C09): the statement's own restrictions — single-input converters,
	// no subtypes, one type per name.
	reg("redef", "Redefine: targets of 1-2 parameters over typed T0..Tk and named a:T0, b:T1; <=1-2 supplied inputs; <=2-3 single-input typed converters (+ named variants), cyclic sets included; FilterInput over subsets of types (FilterType/FilterOr/FilterAnd); FilterOutput none/accepts/rejects", func(size int, emit func(Scenario)) {
		nt := 3
		if size >= 2 {
			nt = 4
		}
		var types []int
		for i := 0; i < nt; i++ {
			types = append(types, i)
		}
		tl := labelsOver(types, []string{""}, []string{""})
		labels := append(append([]Label{}, tl...), Label{"a", 0, ""}, Label{"b", 1, ""})
		var convs []FuncSpec
		for i := 0; i < nt; i++ {
			for j := 0; j < nt; j++ {
				if i != j {
					convs = append(convs, FuncSpec{In: []Label{tl[i]}, Out: []Label{tl[j]}, InForm: FormPositional, OutForm: FormPositional})
				}
			}
		}
		if size >= 1 {
			convs = append(convs,
				FuncSpec{In: []Label{{"b", 1, ""}}, Out: []Label{{"a", 0, ""}}},
				FuncSpec{In: []Label{{"", 2, ""}}, Out: []Label{{"a", 0, ""}}},
				FuncSpec{In: []Label{{"b", 1, ""}}, Out: []Label{{"", 2, ""}}, OutForm: FormPositional},
				FuncSpec{In: nil, Out: []Label{tl[2]}, InForm: FormPositional, OutForm: FormPositional},
			)
		}
		maxConvs, maxParams, maxIn := 2, 1, 1
		if size >= 1 {
			maxParams = 2
		}
		if size >= 2 {
			maxIn = 2
		}
		if size >= 3 {
			maxConvs = 3
		}
		var filters [][]int
		if size == 0 {
			filters = [][]int{{1}, {2}, {1, 2}, {}}
		} else {
			filters = subsetsUpTo(nt, nt)
		}
		for _, tp := range subsetsUpTo(len(labels), maxParams) {
			if len(tp) == 0 || !wellFormed(pick(labels, tp)) {
				continue
			}
			for _, in := range subsetsUpTo(len(labels), maxIn) {
				if !inputsDistinct(pick(labels, in)) {
					continue
				}
				for _, cs := range subsetsUpTo(len(convs), maxConvs) {
					var cl []FuncSpec
					for k, ci := range cs {
						c := convs[ci]
						c.ID = fmt.Sprintf("c%d", k)
						cl = append(cl, c)
					}
					for fi := -1; fi < len(filters); fi++ {
						s := Scenario{Mode: "redefine",
							Target: FuncSpec{ID: "tgt", In: pick(labels, tp), InForm: formFor(pick(labels, tp)), Out: []Label{{"", 0, ""}}, OutForm: FormPositional},
							Inputs: mkInputs(pick(labels, in)), Convs: cl}
						if fi >= 0 {
							s.HasFilter, s.FilterIn = true, filters[fi]
						}
						emit(s)
						if len(cs) <= 1 && (fi == -1 || fi == 0) {
							for fo := 1; fo <= 2; fo++ {
								s2 := s
								s2.FilterOut = fo
								emit(s2)
								if fo == 2 {
									s3 := s2
									s3.Target.Out = nil
									emit(s3)
									s4 := s2
									s4.Target.Out, s4.Target.HasErr = nil, true
									emit(s4)
								}
							}
						}
					}
				}
			}
		}
	})
}
