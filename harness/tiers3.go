package harness

import "fmt"

func init() {
	// ---- redef (C08/C09): the statement's own restrictions — single-input converters,
	// no subtypes, one type per name.
	reg("redef", "Redefine: targets of 1-2 parameters over typed T0..Tk and named a:T0, b:T1; <=1-2 supplied inputs; <=2-3 single-input typed converters (+ named variants), cyclic sets included; FilterInput over subsets of types (FilterType/FilterOr/FilterAnd); FilterOutput none/accepts/rejects", func(size int, emit func(Scenario)) {
		prov := size >= 10 // redefprov: see tiers4.go
		if prov {
			size -= 10
		}
		nt := 3
		if size >= 2 {
			nt = 4
		}
		var types []int
		for i := 0; i < nt; i++ {
			types = append(types, i)
		}
		tl := labelsOver(types, []string{""}, []string{""})
		labels := append(append([]Label{}, tl...), Label{"a", 0, ""}, Label{"b", 1, ""})
		var convs []FuncSpec
		for i := 0; i < nt; i++ {
			for j := 0; j < nt; j++ {
				if i != j {
					convs = append(convs, FuncSpec{In: []Label{tl[i]}, Out: []Label{tl[j]}, InForm: FormPositional, OutForm: FormPositional})
				}
			}
		}
		if size >= 1 {
			convs = append(convs,
				FuncSpec{In: []Label{{"b", 1, ""}}, Out: []Label{{"a", 0, ""}}},
				FuncSpec{In: []Label{{"", 2, ""}}, Out: []Label{{"a", 0, ""}}},
				FuncSpec{In: []Label{{"b", 1, ""}}, Out: []Label{{"", 2, ""}}, OutForm: FormPositional},
				FuncSpec{In: nil, Out: []Label{tl[2]}, InForm: FormPositional, OutForm: FormPositional},
				// a converter supplied through a generator, and a run-once provider
				FuncSpec{In: []Label{tl[1]}, Out: []Label{tl[0]}, InForm: FormPositional, OutForm: FormStruct, Gen: true},
				FuncSpec{In: nil, Out: []Label{tl[2]}, InForm: FormPositional, OutForm: FormStruct, Once: true},
			)
			// a provider publishing a *named* value: its scenarios form the tier redefprov
			if prov {
				convs = append(convs, FuncSpec{In: nil, Out: []Label{{"a", 0, ""}}, InForm: FormPositional, OutForm: FormStruct})
			}
		}
		maxConvs, maxParams, maxIn := 2, 1, 1
		if size >= 1 {
			maxParams = 2
		}
		if size >= 2 {
			maxIn = 2
		}
		if size >= 3 {
			maxConvs = 3
		}
		var filters [][]int
		if size == 0 {
			filters = [][]int{{1}, {2}, {1, 2}, {}}
		} else {
			filters = subsetsUpTo(nt, nt)
		}
		for _, tp := range subsetsUpTo(len(labels), maxParams) {
			if len(tp) == 0 || !wellFormed(pick(labels, tp)) {
				continue
			}
			for _, in := range subsetsUpTo(len(labels), maxIn) {
				if !inputsDistinct(pick(labels, in)) {
					continue
				}
				for _, cs := range subsetsUpTo(len(convs), maxConvs) {
					var cl []FuncSpec
					for k, ci := range cs {
						c := convs[ci]
						c.ID = fmt.Sprintf("c%d", k)
						cl = append(cl, c)
					}
					for fi := -1; fi < len(filters); fi++ {
						s := Scenario{Mode: "redefine",
							Target: FuncSpec{ID: "tgt", In: pick(labels, tp), InForm: formFor(pick(labels, tp)), Out: []Label{{"", 0, ""}}, OutForm: FormPositional},
							Inputs: mkInputs(pick(labels, in)), Convs: cl}
						if fi >= 0 {
							s.HasFilter, s.FilterIn = true, filters[fi]
						}
						emit(s)
						if len(cs) <= 1 && (fi == -1 || fi == 0) {
							for fo := 1; fo <= 2; fo++ {
								s2 := s
								s2.FilterOut = fo
								emit(s2)
								if fo == 2 {
									// an output of a concrete type implementing error is an ordinary output
									s5 := s2
									s5.Target.Out = []Label{{"", TE, ""}}
									emit(s5)
									s3 := s2
									s3.Target.Out = nil
									emit(s3)
									s4 := s2
									s4.Target.Out, s4.Target.HasErr = nil, true
									emit(s4)
								}
							}
						}
					}
				}
			}
		}
	})

	// ---- built1: conv1 with functions assembled by BuildFunc over NewValueSet
	reg("built1", "as conv1 (one converter T1->T0, every label pair incl. named values with subtypes, <=1 input) with the converter, the target, or both assembled with BuildFunc", func(size int, emit func(Scenario)) {
		Tiers["conv1"].Gen(0, func(s Scenario) {
			for _, v := range [][2]bool{{true, false}, {false, true}, {true, true}} {
				s2 := s
				s2.Convs = append([]FuncSpec{}, s.Convs...)
				if v[0] {
					s2.Convs[0].Built, s2.Convs[0].HasErr = true, true
				}
				if v[1] {
					s2.Target.Built, s2.Target.HasErr = true, true
				}
				emit(s2)
			}
		})
	})

	// ---- failsforms: failing converters with several outputs in every result form
	reg("failsforms", "a converter T1 -> (T0, T3) with an error result, failing or not, in positional / struct / pointer-struct / BuildFunc form, alone or behind a second converter T2 -> T1; target (T0) or (T0, T3)", func(size int, emit func(Scenario)) {
		u := func(t int) Label { return Label{"", t, ""} }
		for _, fails := range []bool{true, false} {
			for _, form := range []int{0, 1, 2, 3} {
				c0 := FuncSpec{ID: "c0", In: []Label{u(1)}, Out: []Label{u(0), u(3)}, HasErr: true, Fails: fails, InForm: FormPositional}
				switch form {
				case 0:
					c0.OutForm = FormPositional
				case 1:
					c0.OutForm = FormStruct
				case 2:
					c0.OutForm = FormPtrStruct
				case 3:
					c0.Built = true
				}
				for _, outs := range [][]Label{{u(0), u(3)}, {{"a", 0, ""}, {"b", 0, ""}}, {u(0)}, {u(0), u(3), {"a", 2, ""}}} {
					if form == 0 && !positionalOK(outs) {
						continue
					}
					c := c0
					c.Out = outs
					for _, tin := range [][]Label{{outs[0]}, outs[:len(outs):len(outs)]} {
						for _, chain := range []bool{false, true} {
							s := Scenario{Target: FuncSpec{ID: "tgt", In: tin, InForm: FormStruct, Out: []Label{u(4)}, OutForm: FormPositional}, Inputs: mkInputs([]Label{u(1)}), Convs: []FuncSpec{c}}
							if chain {
								s.Inputs = mkInputs([]Label{u(2)})
								s.Convs = append(s.Convs, FuncSpec{ID: "c1", In: []Label{u(2)}, Out: []Label{u(1)}, InForm: FormPositional, OutForm: FormPositional})
							}
							emit(s)
						}
					}
				}
			}
		}
	})

	// ---- subchains: multi-input converters whose type-only inputs carry subtypes
	reg("subchains", "one converter with two type-only inputs over {T1, T1/x, T1/y} x {T2, T2/x} producing T0 (type-only or named); target of 1-2 parameters over {T0, a:T0, T1/x, T1/y, T2/x}; up to 3 type-only inputs over the subtyped labels — several subtypes of one Go type in one call, converters of which one input is derivable and one is not", func(size int, emit func(Scenario)) {
		p1 := []Label{{"", 1, ""}, {"", 1, "x"}, {"", 1, "y"}}
		p2 := []Label{{"", 2, ""}, {"", 2, "x"}}
		tls := []Label{{"", 0, ""}, {"a", 0, ""}, {"", 1, "x"}, {"", 1, "y"}, {"", 2, "x"}}
		ins := []Label{{"", 1, ""}, {"", 1, "x"}, {"", 1, "y"}, {"", 2, ""}, {"", 2, "x"}}
		for _, a := range p1 {
			for _, b := range p2 {
				for _, out := range []Label{{"", 0, ""}, {"a", 0, ""}} {
					conv := FuncSpec{ID: "c0", In: []Label{a, b}, Out: []Label{out}, InForm: FormStruct, OutForm: FormStruct}
					for _, tp := range subsetsUpTo(len(tls), 2) {
						if len(tp) == 0 || !wellFormed(pick(tls, tp)) {
							continue
						}
						for _, in := range subsetsUpTo(len(ins), 3) {
							if !inputsDistinct(pick(ins, in)) {
								continue
							}
							t := mkTarget(pick(tls, tp))
							t.InForm = FormStruct
							emit(Scenario{Target: t, Inputs: mkInputs(pick(ins, in)), Convs: []FuncSpec{conv}})
						}
					}
				}
			}
		}
	})

	// ---- multiout: one converter with two outputs of one type under different labels
	reg("multiout", "one converter T1 -> (o1, o2) with two outputs of type T0 under different labels (a named and a type-only one, two names, with/without subtype; well-formed), struct and pointer-struct result forms; target of 1-2 parameters over the T0 labels; input T1", func(size int, emit func(Scenario)) {
		ls := labelsOver([]int{0}, []string{"", "a", "b"}, []string{"", "x"})
		for _, op := range subsetsUpTo(len(ls), 2) {
			if len(op) != 2 || !wellFormed(pick(ls, op)) {
				continue
			}
			for _, order := range [][2]int{{0, 1}, {1, 0}} {
				outs := []Label{ls[op[order[0]]], ls[op[order[1]]]}
				for _, of := range []Form{FormStruct, FormPtrStruct} {
					conv := FuncSpec{ID: "c0", In: []Label{{"", 1, ""}}, Out: outs, InForm: FormPositional, OutForm: of}
					for _, tp := range subsetsUpTo(len(ls), 2) {
						if len(tp) == 0 || !wellFormed(pick(ls, tp)) {
							continue
						}
						t := mkTarget(pick(ls, tp))
						t.InForm = FormStruct
						emit(Scenario{Target: t, Inputs: mkInputs([]Label{{"", 1, ""}}), Convs: []FuncSpec{conv}})
					}
				}
			}
		}
	})

	// ---- subconv: converters within one type, between names and subtypes
	reg("subconv", "one converter over a single type T0 whose input and output labels differ in name and/or subtype (e.g. a:T0 -> a:T0/x); 1 parameter over the same labels; <=1 input", func(size int, emit func(Scenario)) {
		ls := labelsOver([]int{0}, []string{"", "a", "b"}, []string{"", "x", "y"})
		for _, tp := range ls {
			for _, ci := range ls {
				for _, co := range ls {
					if ci == co {
						continue
					}
					for _, in := range subsetsUpTo(len(ls), 1) {
						emit(Scenario{
							Target: FuncSpec{ID: "tgt", In: []Label{tp}, Out: []Label{{"", 2, ""}}, OutForm: FormPositional},
							Inputs: mkInputs(pick(ls, in)),
							Convs:  []FuncSpec{{ID: "c1", In: []Label{ci}, Out: []Label{co}}},
						})
					}
				}
			}
		}
	})

	// ---- subdup: targets with two type-only parameters of one type and different subtypes
	reg("subdup", "targets with two type-only parameters of one type that differ in subtype (plus optionally a third parameter), 0-2 inputs; outside C06's well-formedness, used for the reporting oracles only", func(size int, emit func(Scenario)) {
		targets := [][]Label{
			{{"", 0, "x"}, {"", 0, "y"}},
			{{"", 0, ""}, {"", 0, "x"}},
			{{"", 0, "x"}, {"", 0, "y"}, {"a", 1, ""}},
			{{"", 0, "y"}, {"", 0, "x"}, {"", 1, ""}},
		}
		ins := []Label{{"", 0, "x"}, {"", 0, "y"}, {"", 0, ""}, {"", 1, ""}, {"a", 1, ""}, {"b", 0, "x"}}
		for _, t := range targets {
			for _, in := range subsetsUpTo(len(ins), 2) {
				if !inputsDistinct(pick(ins, in)) {
					continue
				}
				tg := mkTarget(t)
				tg.InForm = FormStruct
				emit(Scenario{Target: tg, Inputs: mkInputs(pick(ins, in))})
			}
		}
	})

	// ---- redefptr: Redefine over composite (pointer) types, whose reflect Name() is empty
	reg("redefptr", "Redefine with type-only / named parameters of pointer types *T0, *T1 (and T0): 1-2 parameters, <=1 supplied input, <=1 converter among *T0->*T1, T0->*T0, *T1->T0; filters over subsets of {T0,*T0,*T1}", func(size int, emit func(Scenario)) {
		labels := []Label{{"", TP0, ""}, {"", TP1, ""}, {"", 0, ""}, {"p", TP0, ""}, {"q", TP1, ""}}
		convs := []*FuncSpec{nil,
			{ID: "c0", In: []Label{{"", TP0, ""}}, Out: []Label{{"", TP1, ""}}, InForm: FormPositional, OutForm: FormPositional},
			{ID: "c0", In: []Label{{"", 0, ""}}, Out: []Label{{"", TP0, ""}}, InForm: FormPositional, OutForm: FormPositional},
			{ID: "c0", In: []Label{{"", TP1, ""}}, Out: []Label{{"", 0, ""}}, InForm: FormPositional, OutForm: FormPositional},
		}
		// the original function's last result is of a concrete error type (an ordinary
		// output), and the inner call of the redefined function fails
		for _, outs := range [][]Label{{{"", TE, ""}}, {{"", 2, ""}, {"", TE, ""}}} {
			for _, hasErr := range []bool{false, true} {
				for _, f := range [][]int{nil, {1}} {
					s := Scenario{Mode: "redefine",
						Target: FuncSpec{ID: "tgt", In: []Label{{"", 0, ""}}, InForm: FormPositional, Out: outs, OutForm: FormPositional, HasErr: hasErr},
						Convs:  []FuncSpec{{ID: "c0", In: []Label{{"", 1, ""}}, Out: []Label{{"", 0, ""}}, InForm: FormPositional, OutForm: FormPositional, HasErr: true, Fails: true}}}
					if f != nil {
						s.HasFilter, s.FilterIn = true, f
					}
					emit(s)
				}
			}
		}
		filters := [][]int{nil, {TP0}, {TP1}, {0}, {TP0, TP1}, {0, TP0, TP1}}
		// a converter reached through a named input that also takes an interface-typed
		// type-only field (outside C08's single-input premise: judged by C06 only)
		for _, tin := range [][]Label{{{"", 0, ""}}, {{"", 0, ""}, {"", TP0, ""}}} {
			for _, inp := range [][]Label{nil, {{"a", 1, ""}}, {{"", 3, ""}}} {
				for _, f := range [][]int{nil, {1, TI}, {TI}, {1, 3}, {TI, TP0}} {
					s := Scenario{Mode: "redefine",
						Target: FuncSpec{ID: "tgt", In: tin, InForm: FormPositional, Out: []Label{{"", 2, ""}}, OutForm: FormPositional},
						Inputs: mkInputs(inp),
						Convs:  []FuncSpec{{ID: "c0", In: []Label{{"a", 1, ""}, {"", TI, ""}}, Out: []Label{{"", 0, ""}}, InForm: FormStruct, OutForm: FormPositional}}}
					if f != nil {
						s.HasFilter, s.FilterIn = true, f
					}
					emit(s)
				}
			}
		}
		for _, tp := range subsetsUpTo(len(labels), 2) {
			if len(tp) == 0 || !wellFormed(pick(labels, tp)) {
				continue
			}
			for _, in := range subsetsUpTo(len(labels), 1) {
				for _, c := range convs {
					for fi, f := range filters {
						s := Scenario{Mode: "redefine",
							Target: FuncSpec{ID: "tgt", In: pick(labels, tp), InForm: formFor(pick(labels, tp)), Out: []Label{{"", 2, ""}}, OutForm: FormPositional},
							Inputs: mkInputs(pick(labels, in))}
						if c != nil {
							s.Convs = []FuncSpec{*c}
						}
						if fi > 0 {
							s.HasFilter, s.FilterIn = true, f
						}
						emit(s)
					}
				}
			}
		}
	})

	// ---- layered5: deep acyclic converter sets over five types
	reg("layered5", "five types; every set of exactly 3 'layered' converters (inputs of lower type index than the output, 1-2 inputs); target of 1-2 parameters over T2..T4; inputs among T0, T1 — deep acyclic chains in which a multi-input converter is needed by another multi-input converter", func(size int, emit func(Scenario)) {
		tl := labelsOver([]int{0, 1, 2, 3, 4}, []string{""}, []string{""})
		var convs []FuncSpec
		for out := 1; out <= 4; out++ {
			for _, in := range subsetsUpTo(out, 2) {
				if len(in) == 0 {
					continue
				}
				convs = append(convs, FuncSpec{In: pick(tl, in), Out: []Label{tl[out]}, InForm: FormPositional, OutForm: FormPositional})
			}
		}
		var targets [][]Label
		for a := 2; a <= 4; a++ {
			targets = append(targets, []Label{tl[a]})
			if size >= 1 {
				for b := a + 1; b <= 4; b++ {
					targets = append(targets, []Label{tl[a], tl[b]})
				}
			}
		}
		for _, cs := range subsetsUpTo(len(convs), 3) {
			if len(cs) != 3 {
				continue
			}
			var cl []FuncSpec
			multi := 0
			for k, ci := range cs {
				c := convs[ci]
				c.ID = fmt.Sprintf("c%d", k)
				cl = append(cl, c)
				if len(c.In) > 1 {
					multi++
				}
			}
			if multi == 0 {
				continue // single-input chains are covered by the chains tiers
			}
			for _, tp := range targets {
				for _, in := range [][]Label{{tl[0]}, {tl[0], tl[1]}} {
					emit(Scenario{Target: FuncSpec{ID: "tgt", In: tp, InForm: FormPositional, OutForm: FormPositional}, Inputs: mkInputs(in), Convs: cl})
				}
			}
		}
	})

	// ---- illformed (C01 only): converters whose outputs repeat a type-only type or a
	// name, differing in subtype. Outside C06's well-formedness; soundness must still hold.
	reg("illformed", "converters with two type-only outputs of one type (subtypes x / y) or two outputs of one name, feeding subtyped parameters; only the soundness oracle (C01) applies", func(size int, emit func(Scenario)) {
		outs := [][]Label{
			{{"", 0, "x"}, {"", 0, "y"}},
			{{"", 0, ""}, {"", 0, "y"}},
			{{"a", 0, "x"}, {"a", 0, "y"}},
			{{"a", 0, ""}, {"a", 0, "x"}},
		}
		params := labelsOver([]int{0}, []string{"", "a"}, []string{"", "x", "y"})
		for _, o := range outs {
			for _, of := range []Form{FormStruct, FormPtrStruct} {
				conv := FuncSpec{ID: "c0", In: []Label{{"", 1, ""}}, Out: o, InForm: FormPositional, OutForm: of}
				for _, tp := range subsetsUpTo(len(params), 2) {
					if len(tp) == 0 || !wellFormed(pick(params, tp)) {
						continue
					}
					t := mkTarget(pick(params, tp))
					t.InForm = FormStruct
					emit(Scenario{Target: t, Inputs: mkInputs([]Label{{"", 1, ""}}), Convs: []FuncSpec{conv}})
				}
			}
		}
	})
}
