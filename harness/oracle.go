package harness

import (
	"fmt"
	"regexp"
	"strings"

	am "github.com/hashicorp/go-argmapper"
)

var termRe = regexp.MustCompile(`^([A-Za-z0-9]+)\.(\d+)\((.*)\)$`)

// supplierLabel resolves a provenance term to the label it was supplied under,
// verifying that the supplier is real: an input of this scenario, or output i of a
// supplied function for which the log holds an invocation with exactly these
// argument terms.
func supplierLabel(s Scenario, log *Log, prov string) (l Label, isInput bool, bad string) {
	switch prov {
	case "":
		return Label{}, false, "fabricated zero value"
	case "<nil>":
		// a nil interface value is a genuine value when a supplied converter that returns
		// nil for its interface-typed outputs has run
		for _, c := range s.Convs {
			if !c.NilIface {
				continue
			}
			for _, inv := range log.Inv {
				if inv.Func != c.ID {
					continue
				}
				for _, o := range c.Out {
					if o.T == TI || o.T == TI2 {
						return o, false, ""
					}
				}
			}
		}
		return Label{}, false, "missing value <nil>"
	case "<invalid>", "<nilstruct>", "<missing>":
		return Label{}, false, "missing value " + prov
	}
	for _, in := range s.Inputs {
		if in.V == prov {
			return in.L, true, ""
		}
	}
	m := termRe.FindStringSubmatch(prov)
	if m == nil {
		return Label{}, false, fmt.Sprintf("value of unknown origin %q", prov)
	}
	for _, c := range s.Convs {
		if c.ID != m[1] {
			continue
		}
		var idx int
		fmt.Sscan(m[2], &idx)
		if idx >= len(c.Out) {
			return Label{}, false, "value from non-existent output " + prov
		}
		for _, inv := range log.Inv {
			if inv.Func != c.ID {
				continue
			}
			var terms []string
			for _, a := range inv.Args {
				terms = append(terms, a.Prov)
			}
			if strings.Join(terms, ",") == m[3] {
				return c.Out[idx], false, ""
			}
		}
		return Label{}, false, "value from an invocation that never ran: " + prov
	}
	return Label{}, false, "value from unknown supplier " + prov
}

func valueIsLabel(v *am.Value, l Label) bool {
	return v.Name == l.Name && v.Type == typeOf(l.T) && v.Subtype == l.Sub
}

type facts struct {
	availW, availN     []Label
	convSatW, convSatN []bool
	allW, allN         bool
	allConvSatN        bool
	anyFails           bool
}

func analyse(s Scenario) facts {
	var f facts
	f.availW, f.convSatW = derive(s, Env)
	f.availN, f.convSatN = deriveGen(s, Core, true)
	f.allW, f.allN = true, true
	for _, p := range s.Target.In {
		if !paramDerivable(p, f.availW, Env) {
			f.allW = false
		}
		if !paramDerivable(p, f.availN, Core) {
			f.allN = false
		}
	}
	f.allConvSatN = true
	for i, b := range f.convSatN {
		if !b && !(s.Convs[i].Gen && !genVisible(s, s.Convs[i])) {
			f.allConvSatN = false
		}
	}
	for _, c := range s.Convs {
		if c.Fails {
			f.anyFails = true
		}
	}
	if s.Target.Fails {
		f.anyFails = true
	}
	return f
}

// C05Premise: every target parameter Core-derivable and the converter set well-behaved.
func wellBehavedConvs(s Scenario, f facts) bool {
	return maxConvInputs(s) <= 1 || (convGraphAcyclic(s) && f.allConvSatN)
}

// CheckExec evaluates the per-execution oracles of the requested properties.
func CheckExec(props map[string]bool, s Scenario, o Outcome) []Finding {
	var fs []Finding
	add := func(p, clause, m string, a ...interface{}) {
		if props[p] {
			fs = append(fs, Finding{p, clause, fmt.Sprintf(m, a...)})
		}
	}
	if o.Panic != "" {
		add("C06", o.PanicKind+":"+o.Frame, "%s: %s", o.PanicKind, firstLine(o.Panic))
	}
	// C01 holds for whatever ran before a panic as well.
	argsOK := true
	for _, inv := range o.Log.Inv {
		for _, a := range inv.Args {
			l, _, bad := supplierLabel(s, o.Log, a.Prov)
			if bad != "" {
				argsOK = false
				add("C01", "fabricated", "%s param %s: %s", inv.Func, a.Param, bad)
				continue
			}
			if !Env(l, a.Param) {
				add("C01", "mislabelled", "%s param %s received %s supplied as %s", inv.Func, a.Param, a.Prov, l)
			}
		}
	}
	if o.BuildErr != "" {
		return fs
	}
	f := analyse(s)
	if o.Panic != "" {
		// an unsatisfiable call must be *refused*: a panic, a recursion-depth or step
		// sentinel is not an error return
		if !f.allW {
			add("C02", "no-error", "a target parameter is underivable but the call did not return an error: %s", firstLine(o.Panic))
		}
		return fs
	}
	checkAffinity(s, o, add)
	// C02
	if !f.allW {
		if o.Err == nil {
			add("C02", "no-error", "a target parameter is underivable but the call returned no error")
		}
		if o.TargetRan {
			add("C02", "target-ran", "a target parameter is underivable but the target ran")
		}
		if !argsOK {
			add("C02", "missing-arg", "a converter ran with a missing argument")
		}
		if f.allConvSatN && !f.anyFails && o.Err != nil && o.Unsat == nil {
			add("C02", "error-type", "error is not ErrArgumentUnsatisfied: %s", firstLine(o.Err.Error()))
		}
	}
	// C03
	exact := len(s.Target.In) > 0
	for _, p := range s.Target.In {
		if !exactKey(p, s.Inputs) {
			exact = false
		}
	}
	if exact && s.Mode == "" {
		if !o.OK && !(s.Target.Fails && o.ConvFail == s.Target.ID) {
			add("C03", "failed", "exact inputs for every parameter but the call failed: %s", firstLine(fmt.Sprint(o.Err)))
		}
		for _, inv := range o.Log.Inv {
			if inv.Func != s.Target.ID {
				add("C03", "converter-ran", "converter %s executed despite exact inputs", inv.Func)
				continue
			}
			for _, a := range inv.Args {
				l, isIn, bad := supplierLabel(s, o.Log, a.Prov)
				if bad != "" {
					continue // C01's business
				}
				if a.Param.Name != "" && (!isIn || l != a.Param) {
					add("C03", "named-param", "named parameter %s received %s (%s) instead of its exact input", a.Param, a.Prov, l)
				}
				if a.Param.Name == "" && (!isIn || l.T != a.Param.T) {
					add("C03", "typed-param", "type-only parameter %s received %s (%s)", a.Param, a.Prov, l)
				}
			}
		}
	}
	// C04
	{
		firstFail := -1
		for i, inv := range o.Log.Inv {
			for _, c := range s.Convs {
				if c.ID == inv.Func && c.Fails && firstFail < 0 {
					firstFail = i
				}
			}
		}
		if firstFail >= 0 {
			if o.ConvFail != o.Log.Inv[firstFail].Func {
				add("C04", "not-verbatim", "failing converter %s ran but Err() is not its error value: %s", o.Log.Inv[firstFail].Func, firstLine(fmt.Sprint(o.Err)))
			}
			if firstFail != len(o.Log.Inv)-1 {
				add("C04", "ran-after", "%s executed after failing converter", o.Log.Inv[firstFail+1].Func)
			}
			if o.TargetRan {
				add("C04", "target-ran", "target ran after a failing converter")
			}
		} else if o.ConvFail != "" && o.ConvFail != s.Target.ID {
			add("C04", "phantom", "converter error %s reported but that converter never ran", o.ConvFail)
		}
		if o.OK {
			for _, inv := range o.Log.Inv {
				for _, c := range s.Convs {
					if c.ID == inv.Func && c.Fails {
						add("C04", "ok-despite-fail", "call succeeded although failing converter %s ran", c.ID)
					}
				}
			}
		}
		if s.Target.Fails && o.TargetRan && s.Mode == "" && o.ConvFail != s.Target.ID {
			add("C04", "target-error", "target returned an error but Err() does not report it: %s", firstLine(fmt.Sprint(o.Err)))
		}
	}
	// C05 (per-execution part: completeness)
	if f.allN && wellBehavedConvs(s, f) {
		if !o.OK && !(f.anyFails && o.ConvFail != "") {
			add("C05", "incomplete", "every parameter derivable on a well-behaved converter set but the call failed: %s", firstLine(fmt.Sprint(o.Err)))
		}
	}
	// C13
	{
		var hope []Label
		for _, p := range s.Target.In {
			if hopeless(p, s, Env) {
				hope = append(hope, p)
			}
		}
		if len(hope) > 0 && s.Mode == "" {
			if o.Unsat == nil {
				add("C13", "error-type", "hopeless parameter %s but error is not ErrArgumentUnsatisfied: %s", hope[0], firstLine(fmt.Sprint(o.Err)))
			} else {
				checkUnsat(s, o, f, hope, add)
			}
		}
	}
	return fs
}

func checkUnsat(s Scenario, o Outcome, f facts, hope []Label, add func(p, clause, m string, a ...interface{})) {
	u := o.Unsat
	for _, h := range hope {
		found := false
		for _, a := range u.Args {
			if valueIsLabel(a, h) {
				found = true
			}
		}
		if !found {
			add("C13", "args-missing", "hopeless parameter %s missing from Args", h)
		}
	}
	msg := o.Err.Error()
	for _, a := range u.Args {
		isParam := false
		for _, p := range s.Target.In {
			if !valueIsLabel(a, p) {
				continue
			}
			isParam = true
			if exactKey(p, s.Inputs) {
				add("C13", "args-exact", "Args lists %s although an exactly matching value was supplied", p)
			}
			if paramDerivable(p, f.availN, Core) {
				add("C13", "args-derivable", "Args lists %s although it is derivable", p)
			}
		}
		if !isParam {
			add("C13", "args-foreign", "Args lists %s which is not a parameter of the target", a.String())
		}
		if !strings.Contains(msg, a.String()) {
			add("C13", "message", "message does not mention missing argument %s", a.String())
		}
	}
	// Inputs: exactly the supplied values (multiset of label + value term)
	want := map[string]int{}
	for _, in := range s.Inputs {
		want[in.L.String()+"="+in.V]++
	}
	got := map[string]int{}
	for _, v := range u.Inputs {
		got[Label{v.Name, typeIndex(v.Type), v.Subtype}.String()+"="+provOf(v.Value)]++
	}
	for k, n := range want {
		if got[k] != n {
			add("C13", "inputs", "Inputs lists %q %d times, supplied %d", k, got[k], n)
		}
	}
	for k, n := range got {
		if want[k] == 0 {
			add("C13", "inputs", "Inputs lists %q (x%d) which was not supplied", k, n)
		}
	}
	for _, c := range s.Convs {
		cf := o.World.Funcs[c.ID]
		found := false
		for _, x := range u.Converters {
			if x == cf {
				found = true
			}
		}
		if !found && !c.Gen {
			add("C13", "converters", "Converters omits supplied converter %s", c.ID)
		}
	}
}
