package harness

import (
	"encoding/json"
	"fmt"
	"strings"

	am "github.com/hashicorp/go-argmapper"
	"github.com/hashicorp/go-argmapper/internal/verifrt"
)

// E3: histories over shared objects. Every sequence of operations (Call / Redefine with
// small fixed option sets) up to a depth is executed on objects created once per
// history. Oracles are differential:
//   C09: the history with its Redefine steps deleted observes the same Call results and log;
//        no Redefine step executes user code.
//   C11: the history with the FuncOnce converter replaced by an ordinary function whose
//        body memoizes its first result (the boring reference model of run-once)
//        observes the same; the once body runs at most once.

// HistCase identifies one history.
type HistCase struct {
	Form int   `json:"form"` // variant of the run-once converter
	Ops  []int `json:"ops"`
}

var onceForms = []struct {
	name string
	spec FuncSpec
}{
	{"positional", FuncSpec{ID: "o", In: []Label{{"", 1, ""}}, Out: []Label{{"", 0, ""}}, InForm: FormPositional, OutForm: FormPositional}},
	{"struct", FuncSpec{ID: "o", In: []Label{{"", 1, ""}}, Out: []Label{{"", 0, ""}}, InForm: FormStruct, OutForm: FormStruct}},
	{"pointer-struct", FuncSpec{ID: "o", In: []Label{{"", 1, ""}}, Out: []Label{{"", 0, ""}}, InForm: FormPtrStruct, OutForm: FormPtrStruct}},
	{"two-outputs", FuncSpec{ID: "o", In: []Label{{"", 1, ""}}, Out: []Label{{"", 0, ""}, {"", 3, ""}}, InForm: FormPositional, OutForm: FormPositional}},
	{"two-outputs-ptr", FuncSpec{ID: "o", In: []Label{{"", 1, ""}}, Out: []Label{{"", 0, ""}, {"n", 3, ""}}, InForm: FormStruct, OutForm: FormPtrStruct}},
	{"failing", FuncSpec{ID: "o", In: []Label{{"", 1, ""}}, Out: []Label{{"", 0, ""}}, InForm: FormPositional, OutForm: FormPositional, HasErr: true, Fails: true}},
	{"error-result-ok", FuncSpec{ID: "o", In: []Label{{"", 1, ""}}, Out: []Label{{"", 0, ""}}, InForm: FormPositional, OutForm: FormStruct, HasErr: true}},
	{"named-in-out", FuncSpec{ID: "o", In: []Label{{"a", 1, ""}}, Out: []Label{{"a", 0, ""}}, InForm: FormStruct, OutForm: FormStruct}},
	{"nil-pointer-struct", FuncSpec{ID: "o", In: []Label{{"", 1, ""}}, Out: []Label{{"", 0, ""}}, InForm: FormPositional, OutForm: FormPtrStruct, NilOut: true}},
	// two inputs: the second one is resolved by a nested reach, which can fail in a later call
	{"two-inputs", FuncSpec{ID: "o", In: []Label{{"", 1, ""}, {"", 2, ""}}, Out: []Label{{"", 0, ""}}, InForm: FormPositional, OutForm: FormPositional}},
}

type histOp struct {
	name   string
	redef  bool
	target string
	inputs []Input
	filter []int
	hasF   bool
}

var histOps = []histOp{
	{name: "Call(tA; T1=x1)", target: "tA", inputs: []Input{{Label{"a", 1, ""}, "x1"}}},
	{name: "Call(tA; T1=x2)", target: "tA", inputs: []Input{{Label{"a", 1, ""}, "x2"}}},
	{name: "Call(tA; T2=y1)", target: "tA", inputs: []Input{{Label{"", 2, ""}, "y1"}}},
	{name: "Call(tB; T1=x2)", target: "tB", inputs: []Input{{Label{"a", 1, ""}, "x2"}}},
	{name: "Call(tB; T2=y2)", target: "tB", inputs: []Input{{Label{"", 2, ""}, "y2"}}},
	{name: "Call(tA; T3=z)", target: "tA", inputs: []Input{{Label{"", 3, ""}, "z"}}},
	{name: "Call(tV once,void; T3=w1)", target: "tV", inputs: []Input{{Label{"", 3, ""}, "w1"}}},
	{name: "Call(tV once,void; T3=w2)", target: "tV", inputs: []Input{{Label{"", 3, ""}, "w2"}}},
	{name: "Call(tR once; T3=w3)", target: "tR", inputs: []Input{{Label{"", 3, ""}, "w3"}}},
	{name: "Call(tR once; no input)", target: "tR"},
	{name: "Redefine(tR once; filter T1)", redef: true, target: "tR", hasF: true, filter: []int{1}},
	{name: "Redefine(tA)", redef: true, target: "tA"},
	{name: "Redefine(tA; filter T2)", redef: true, target: "tA", hasF: true, filter: []int{2}},
	{name: "Redefine(tB; T1=x1)", redef: true, target: "tB", inputs: []Input{{Label{"a", 1, ""}, "x1"}}},
	{name: "Call(tA; T1=x1 T2=y1)", target: "tA", inputs: []Input{{Label{"", 1, ""}, "x1"}, {Label{"", 2, ""}, "y1"}}},
	{name: "Call(tA; T1=x1 T3=z)", target: "tA", inputs: []Input{{Label{"", 1, ""}, "x1"}, {Label{"", 3, ""}, "z"}}},
}

func usesLateOp(ops []int) bool {
	for _, o := range ops {
		if o >= 14 {
			return true
		}
	}
	return false
}

// runHist executes the history on fresh shared objects and returns one observation
// per operation (Redefine steps are skipped when skipRedef).
func runHist(c HistCase, memoBody, skipRedef bool) (obs []string, onceCount int, pan string) {
	w := NewWorld()
	verifrt.ResetBudget()
	defer func() {
		onceCount = w.Counts["o"]
		if r := recover(); r != nil {
			switch x := r.(type) {
			case verifrt.HarnessError:
				panic(HarnessPanic{x.Msg})
			case HarnessPanic:
				panic(x)
			}
			pan = firstLine(fmt.Sprint(r))
		}
	}()
	ospec := onceForms[c.Form].spec
	if memoBody {
		w.Memo["o"] = true
	} else {
		ospec.Once = true
	}
	build := func(s FuncSpec) *am.Func {
		f, err := w.Build(s)
		if err != nil {
			panic(HarnessPanic{"hist: cannot build " + s.String() + ": " + err.Error()})
		}
		return f
	}
	o := build(ospec)
	c2 := build(FuncSpec{ID: "c2", In: []Label{{"", 2, ""}}, Out: []Label{{"a", 1, ""}}, InForm: FormPositional, OutForm: FormStruct})
	cf := build(FuncSpec{ID: "cf", In: []Label{{"", 3, ""}}, Out: []Label{{"", 2, ""}}, InForm: FormPositional, OutForm: FormPositional, HasErr: true, Fails: true})
	targets := map[string]*am.Func{
		"tA": build(FuncSpec{ID: "tA", In: []Label{{"", 0, ""}}, InForm: FormPositional, Out: []Label{{"", 2, ""}}, OutForm: FormPositional}),
		"tB": build(FuncSpec{ID: "tB", In: []Label{{"a", 0, ""}, {"", 3, ""}}, InForm: FormStruct, Out: []Label{{"", 2, ""}}, OutForm: FormPositional}),
	}
	// run-once *targets*: one without any result (reflect returns a nil slice for it) and
	// one with a result; their bodies follow the same FuncOnce / memoizing-body switch
	for _, ts := range []FuncSpec{
		{ID: "tV", In: []Label{{"", 3, ""}}, InForm: FormPositional, OutForm: FormPositional},
		{ID: "tR", In: []Label{{"", 3, ""}}, InForm: FormStruct, Out: []Label{{"", 2, ""}}, OutForm: FormPositional, HasErr: true},
	} {
		if memoBody {
			w.Memo[ts.ID] = true
		} else {
			ts.Once = true
		}
		targets[ts.ID] = build(ts)
	}
	// tB's second parameter T3 comes from the once converter when it has two outputs,
	// otherwise from a plain provider chained behind it
	p3 := build(FuncSpec{ID: "p3", In: []Label{{"", 0, ""}}, Out: []Label{{"", 3, ""}}, InForm: FormStruct, OutForm: FormPositional})
	shared := []am.Arg{am.ConverterFunc(o, c2), am.ConverterFunc(cf)}
	if len(ospec.Out) == 1 {
		shared = append(shared, am.ConverterFunc(p3))
	}
	for _, oi := range c.Ops {
		op := histOps[oi]
		if op.redef && skipRedef {
			continue
		}
		mark := len(w.Log.Inv)
		args := append([]am.Arg{}, shared...)
		for _, in := range op.inputs {
			args = append(args, inputArg(in))
		}
		if op.redef {
			if op.hasF {
				var fs []am.FilterFunc
				for _, t := range op.filter {
					fs = append(fs, am.FilterType(typeOf(t)))
				}
				args = append(args, am.FilterInput(am.FilterOr(fs...)))
			}
			rf, err := targets[op.target].Redefine(args...)
			e := fmt.Sprintf("%s: err=%v", op.name, err != nil)
			if err == nil {
				var ins []string
				for _, v := range rf.Input().Values() {
					ins = append(ins, Label{v.Name, typeIndex(v.Type), v.Subtype}.String())
				}
				e += " inputs=" + strings.Join(ins, ",")
			}
			e += " ran=[" + invString(w.Log.Inv[mark:]) + "]"
			obs = append(obs, e)
			continue
		}
		r := targets[op.target].Call(args...)
		e := fmt.Sprintf("%s: %s", op.name, errKey(w, r.Err()))
		if r.Err() == nil {
			for i := 0; i < r.Len(); i++ {
				e += " " + provOfIface(r.Out(i))
			}
		}
		e += " log=[" + invString(w.Log.Inv[mark:]) + "]"
		obs = append(obs, e)
	}
	return
}

func (c HistCase) String() string {
	var ns []string
	for _, o := range c.Ops {
		ns = append(ns, histOps[o].name)
	}
	return fmt.Sprintf("once-form=%s history=[%s]", onceForms[c.Form].name, strings.Join(ns, "; "))
}

func checkHist(prop string, c HistCase, pure bool) (fs []Finding) {
	add := func(clause, m string, a ...interface{}) { fs = append(fs, Finding{prop, clause, fmt.Sprintf(m, a...)}) }
	full, count, pan := runHist(c, false, false)
	hasRedef := false
	for _, o := range c.Ops {
		if histOps[o].redef {
			hasRedef = true
		}
	}
	switch prop {
	case "C09":
		if pan != "" {
			// a panic is Redefine's doing only if the Redefine-free history does not panic
			if hasRedef && pure {
				var pan2 string
				WithPureChooser(func() { _, _, pan2 = runHist(c, false, true) })
				if pan2 == "" {
					add("panic", "history panicked (%s); without its Redefine steps it does not", pan)
				}
			}
			return
		}
		for i, o := range c.Ops {
			if histOps[o].redef && i < len(full) && !strings.HasSuffix(full[i], "ran=[]") {
				add("ran-user-code", "step %d %s executed user code", i, full[i])
			}
		}
		if hasRedef && pure {
			var proj []string
			var pan2 string
			WithPureChooser(func() { proj, _, pan2 = runHist(c, false, true) })
			if pan2 != "" {
				return // the Redefine-free history is itself broken: not Redefine's doing
			}
			j := 0
			for i, o := range c.Ops {
				if histOps[o].redef {
					continue
				}
				if i < len(full) && j < len(proj) && full[i] != proj[j] {
					add("disturbed", "step %d observes %q; without the Redefine steps it observes %q", i, full[i], proj[j])
					break
				}
				j++
			}
		}
	case "C11":
		if count > 1 {
			add("ran-twice", "run-once body executed %d times", count)
		}
		if !pure {
			if pan != "" {
				add("panic", "history with a run-once converter panicked: %s", pan)
			}
			return
		}
		var ref []string
		var pan2 string
		WithPureChooser(func() { ref, _, pan2 = runHist(c, true, false) })
		if pan != "" && pan2 == "" {
			add("panic", "history panicked with FuncOnce (%s) but not with an ordinary function memoizing in its body", pan)
			return
		}
		for i := range full {
			// Redefine steps are part of the history (they must not disturb the run-once
			// function) but what Redefine itself reports is not C11's business: planning
			// consults the memoized result of a run-once function, an ordinary function
			// is replaced by a zero-producing stand-in.
			if histOps[c.Ops[i]].redef {
				continue
			}
			if i < len(ref) && full[i] != ref[i] {
				add("later-use", "step %d observes %q; with an ordinary function whose body memoizes its first result it observes %q", i, full[i], ref[i])
				break
			}
		}
	}
	return
}

func init() {
	run := func(prop string) func(st Step, pick func(int) bool, stats *Stats, emit func(Replay)) {
		return func(st Step, pick func(int) bool, stats *Stats, emit func(Replay)) {
			idx := -1
			maxLen := st.Size
			var rec func(form int, cur []int)
			rec = func(form int, cur []int) {
				if len(cur) > 0 {
					idx++
					if pick(idx) {
						c := HistCase{Form: form, Ops: append([]int{}, cur...)}
						stats.Scenarios++
						stats.Premise++
						if len(cur) >= 2 {
							stats.Nontrivial++
						}
						if idx%500 == 77 {
							noteSample(func() string { return c.String() })
						}
						var fsCur []Finding
						seen := map[string]bool{}
						bound := st.Bound
						if len(cur) > 2 {
							bound = 0
						}
						e := &OrderExplorer{Bound: bound, Run: func() { fsCur = checkHist(prop, c, PureOrder) }, Visit: func(choices []int, reverse bool, pts []point) {
							for _, f := range fsCur {
								if seen[f.Clause] {
									continue
								}
								seen[f.Clause] = true
								b, _ := json.Marshal(c)
								emit(Replay{Property: prop, Clause: f.Clause, Msg: f.Msg, Engine: "hist-" + prop, Tier: st.Tier, Extra: b, Choices: trimZeros(choices), Reverse: reverse, Observed: f.Msg})
							}
						}}
						e.Explore()
						stats.Execs += e.Execs
						stats.Points += e.Points
					}
				}
				if len(cur) == maxLen {
					return
				}
				for o := range histOps {
					// the operations and the once form added last (two-input converter, calls
					// supplying / not supplying its second input) are explored to depth 3
					if len(cur) >= 3 && (form >= 9 || o >= 14 || usesLateOp(cur)) {
						continue
					}
					rec(form, append(cur, o))
				}
			}
			for form := range onceForms {
				rec(form, nil)
			}
		}
	}
	replay := func(prop string) func(r Replay) []Finding {
		return func(r Replay) []Finding {
			var c HistCase
			if err := json.Unmarshal(r.Extra, &c); err != nil {
				panic(HarnessPanic{"bad history: " + err.Error()})
			}
			var fs []Finding
			OrderRun(r.Choices, r.Reverse, nil, func() { fs = checkHist(prop, c, PureOrder) })
			fmt.Printf("history: %s\nchoices=%v reverse=%v\n", c, r.Choices, r.Reverse)
			return fs
		}
	}
	doc := "all operation sequences up to the stated depth over {9 Call option sets on 4 shared targets (two of them run-once, one without results), 3 Redefine option sets} x 9 forms of the shared run-once converter (positional/struct/pointer-struct/two outputs/failing/error-returning/named); to depth 3 also a two-input form and two calls supplying / not supplying its second input, sharing a chained converter and a failing converter"
	CaseTiers["hist-C09"] = &CaseTier{Name: "hist-C09", Doc: doc, Run: run("C09"), Replay: replay("C09")}
	CaseTiers["hist-C11"] = &CaseTier{Name: "hist-C11", Doc: doc, Run: run("C11"), Replay: replay("C11")}
	Plans["C09"] = map[string][]Step{
		"quick":    {{Tier: "hist-C09", Size: 3, Bound: 1}, {Tier: "redef", Size: 1, Bound: 0}},
		"thorough": {{Tier: "hist-C09", Size: 4, Bound: 1}, {Tier: "redef", Size: 1, Bound: 0}, {Tier: "redef", Size: 0, Bound: 1}},
	}
}
