package harness

import (
	"encoding/json"
	"fmt"
	"sort"
	"strings"
	"sync"

	am "github.com/hashicorp/go-argmapper"
	"github.com/hashicorp/go-argmapper/internal/verifrt"
	"github.com/hashicorp/go-hclog"
)

// E4: goroutine schedules. A ConcCase is k logical threads, each performing one or two
// operations (Call / Convert / Redefine) on objects shared by all of them: targets,
// converter Funcs, and one option slice holding every option constructor.
//
// E4a (vcheck built through the -access overlay): every schedule within the preemption
// bound is executed under the cooperative scheduler; per execution the oracle checks
// (1) no two threads touch one hooked location with a write, unordered by
// happens-before, (2) no panic / deadlock / livelock, (3) each thread's outcome is one
// it has in some serial order of the threads, (4) a run-once body ran at most once.
//
// E4b (plain build with -race, real goroutines): see racepass.go.

type ConcCase struct {
	Sub     string  `json:"sub"` // "plain" | "once"
	Form    int     `json:"form,omitempty"`
	Threads [][]int `json:"threads"`
}

type concOp struct {
	name string
	kind string // call | convert | redefine | calldef
	tgt  string
	in   string // "T1" | "T2" | "none"
}

var concOps = []concOp{
	{"Call(tA;T1)", "call", "tA", "T1"},
	{"Call(tA;T2)", "call", "tA", "T2"},
	{"Call(tB;T1)", "call", "tB", "T1"},
	{"Convert(T0;T1)", "convert", "", "T1"},
	{"Redefine(tA)", "redefine", "tA", "none"},
	{"Call(tD;T2)", "calldef", "tD", "T2"},
	{"Call(tA;none)", "call", "tA", "none"},
	{"Call(rf;T1,T2)", "callrf", "rf", "T1T2"},
}

func (c ConcCase) String() string {
	var ts []string
	for _, t := range c.Threads {
		var ns []string
		for _, o := range t {
			ns = append(ns, concOps[o].name)
		}
		ts = append(ts, "["+strings.Join(ns, ", ")+"]")
	}
	s := c.Sub
	if c.Sub == "once" {
		s += ":" + onceForms[c.Form].name
	}
	return s + " threads=" + strings.Join(ts, " || ")
}

// concWorld holds the shared objects of one execution.
type concWorld struct {
	w       *World
	targets map[string]*am.Func
	shared  []am.Arg
	outs    [][]string
	cur     func() int
}

var nullLogger = hclog.NewNullLogger()

func newConcWorld(c ConcCase, quiet bool, cur func() int) *concWorld {
	w := NewWorld()
	w.Quiet = quiet
	verifrt.ResetBudget()
	cw := &concWorld{w: w, targets: map[string]*am.Func{}, outs: make([][]string, len(c.Threads)), cur: cur}
	if !quiet {
		w.Tag = func() string { return fmt.Sprintf("@%d", cur()) }
	}
	build := func(s FuncSpec) *am.Func {
		f, err := w.Build(s)
		if err != nil {
			panic(HarnessPanic{"conc: cannot build " + s.String() + ": " + err.Error()})
		}
		return f
	}
	c1spec := FuncSpec{ID: "o", In: []Label{{"", 1, ""}}, Out: []Label{{"", 0, ""}}, InForm: FormPositional, OutForm: FormPositional}
	if c.Sub == "once" {
		c1spec = onceForms[c.Form].spec
		c1spec.Once = true
	}
	c1 := build(c1spec)
	c2 := build(FuncSpec{ID: "c2", In: []Label{{"", 2, ""}}, Out: []Label{{"a", 1, ""}}, InForm: FormPositional, OutForm: FormStruct})
	// pre-create error values: failErr is lazy
	w.failErr("o")
	cw.targets["tA"] = build(FuncSpec{ID: "tA", In: []Label{{"", 0, ""}}, InForm: FormPositional, Out: []Label{{"", 2, ""}}, OutForm: FormPositional})
	cw.targets["tB"] = build(FuncSpec{ID: "tB", In: []Label{{"a", 0, ""}, {"q", 3, ""}}, InForm: FormStruct, Out: []Label{{"", 2, ""}}, OutForm: FormPositional})
	raw3 := w.rawFunc(FuncSpec{ID: "c3", In: []Label{{"", 0, ""}}, Out: []Label{{"n", 3, "s"}}, InForm: FormStruct, OutForm: FormStruct})
	raw4 := w.rawFunc(FuncSpec{ID: "c4", In: []Label{{"zz", 4, ""}}, Out: []Label{{"m", 4, "s"}}, InForm: FormStruct, OutForm: FormStruct})
	gen := func(v am.Value) (*am.Func, error) { return nil, nil }
	// one shared option slice with every option constructor; like any slice grown with
	// append it has spare capacity
	cw.shared = append(make([]am.Arg, 0, 32),
		am.ConverterFunc(c1, c2),
		am.Named("Zed", T3{"shared-zed"}),
		am.NamedSubtype("Q", T3{"shared-q"}, "s"),
		am.Typed(T3{"shared-t3"}),
		am.TypedSubtype(T3{"shared-t3s"}, "s"),
		am.Converter(raw3, raw4),
		am.ConverterGen(gen),
		am.FilterInput(am.FilterOr(am.FilterType(typeOf(1)), am.FilterType(typeOf(2)))),
		am.FilterOutput(func(am.Value) bool { return true }),
		am.Logger(nullLogger),
	)
	// a Func with default options (the defaults slice has spare capacity too)
	defs := append(make([]am.Arg, 0, 16), am.ConverterFunc(c1, c2), am.NamedSubtype("Dq", T3{"def-q"}, "s"), am.Logger(nullLogger))
	td, err := am.NewFunc(w.rawFunc(FuncSpec{ID: "tD", In: []Label{{"", 0, ""}}, InForm: FormStruct, Out: []Label{{"", 2, ""}}, OutForm: FormPositional}), defs...)
	if err != nil {
		panic(HarnessPanic{"conc: tD: " + err.Error()})
	}
	cw.targets["tD"] = td
	// a redefined function shared by the threads. It is built from its *own* option
	// values: applying the thread-shared options here would be their first use, and a
	// first use that is concurrent is exactly what the threads must be able to exhibit.
	own := append(make([]am.Arg, 0, 16),
		am.ConverterFunc(c1, c2),
		am.FilterInput(am.FilterOr(am.FilterType(typeOf(1)), am.FilterType(typeOf(2)))),
		am.Logger(nullLogger))
	rf, err := cw.targets["tA"].Redefine(own...)
	if err != nil {
		panic(HarnessPanic{"conc: Redefine: " + err.Error()})
	}
	cw.targets["rf"] = rf
	return cw
}

func (cw *concWorld) ownLog(t, mark int) string {
	var r []string
	suffix := fmt.Sprintf("@%d", t)
	if cw.w.Quiet {
		return ""
	}
	for _, inv := range cw.w.Log.Inv[mark:] {
		if i := strings.Index(inv.Func, "@"); i >= 0 && inv.Func[i:] == suffix {
			r = append(r, inv.String())
		}
	}
	return strings.Join(r, "; ")
}

// perform executes operation oi as thread t (op ordinal j) and records its outcome.
func (cw *concWorld) perform(t, j, oi int) {
	op := concOps[oi]
	args := append([]am.Arg{}, cw.shared...)
	switch op.in {
	case "T1":
		args = append(args, am.Typed(T1{fmt.Sprintf("x%d_%d", t, j)}))
	case "T2":
		args = append(args, am.Typed(T2{fmt.Sprintf("y%d_%d", t, j)}))
	}
	mark := 0
	if !cw.w.Quiet {
		mark = len(cw.w.Log.Inv)
	}
	var e string
	func() {
		defer func() {
			if r := recover(); r != nil {
				switch x := r.(type) {
				case verifrt.HarnessError, HarnessPanic:
					panic(x)
				}
				if fmt.Sprintf("%T", r) == "verifrt.abortExec" {
					panic(r)
				}
				e = op.name + ": PANIC " + firstLine(fmt.Sprint(r))
			}
		}()
		switch op.kind {
		case "call":
			r := cw.targets[op.tgt].Call(args...)
			e = fmt.Sprintf("%s: %s", op.name, errKey(cw.w, r.Err()))
			if r.Err() == nil {
				for i := 0; i < r.Len(); i++ {
					e += " " + provOfIface(r.Out(i))
				}
			}
		case "callrf":
			// the redefined function, with a value for whatever it declares
			r := cw.targets[op.tgt].Call(am.Typed(T1{fmt.Sprintf("x%d_%d", t, j)}), am.Typed(T2{fmt.Sprintf("y%d_%d", t, j)}))
			e = fmt.Sprintf("%s: %s", op.name, errKey(cw.w, r.Err()))
			if r.Err() == nil {
				for i := 0; i < r.Len(); i++ {
					e += " " + provOfIface(r.Out(i))
				}
			}
		case "calldef":
			r := cw.targets[op.tgt].Call(am.Typed(T2{fmt.Sprintf("y%d_%d", t, j)}))
			e = fmt.Sprintf("%s: %s", op.name, errKey(cw.w, r.Err()))
			if r.Err() == nil {
				for i := 0; i < r.Len(); i++ {
					e += " " + provOfIface(r.Out(i))
				}
			}
		case "convert":
			v, err := am.Convert(typeOf(0), args...)
			e = fmt.Sprintf("%s: %s", op.name, errKey(cw.w, err))
			if err == nil {
				e += " " + provOfIface(v)
			}
		case "redefine":
			rf, err := cw.targets[op.tgt].Redefine(args...)
			e = fmt.Sprintf("%s: err=%v", op.name, err != nil)
			if err == nil {
				var ins []string
				for _, v := range rf.Input().Values() {
					ins = append(ins, Label{v.Name, typeIndex(v.Type), v.Subtype}.String())
				}
				sort.Strings(ins)
				e += " inputs=" + strings.Join(ins, ",")
			}
		}
	}()
	e += " log=[" + cw.ownLog(t, mark) + "]"
	cw.outs[t] = append(cw.outs[t], e)
}

// serialOutcomes runs every *interleaving of the threads' operations* (each thread's
// operations in program order, one operation at a time, no scheduler) and returns, per
// thread and operation, the set of outcomes that operation can have sequentially. The
// property speaks of each concurrent *call*: "an outcome that a sequential execution of
// the same call can return" — not of whole threads.
func serialOutcomes(c ConcCase) [][]map[string]bool {
	k := len(c.Threads)
	acc := make([][]map[string]bool, k)
	for t := range acc {
		acc[t] = make([]map[string]bool, len(c.Threads[t]))
		for j := range acc[t] {
			acc[t][j] = map[string]bool{}
		}
	}
	var order []int
	pos := make([]int, k)
	var rec func()
	rec = func() {
		done := true
		for t := 0; t < k; t++ {
			if pos[t] < len(c.Threads[t]) {
				done = false
				pos[t]++
				order = append(order, t)
				rec()
				order = order[:len(order)-1]
				pos[t]--
			}
		}
		if !done {
			return
		}
		curT := 0
		cw := newConcWorld(c, false, func() int { return curT })
		next := make([]int, k)
		for _, t := range order {
			curT = t
			cw.perform(t, next[t], c.Threads[t][next[t]])
			next[t]++
		}
		for t := 0; t < k; t++ {
			for j, e := range cw.outs[t] {
				acc[t][j][e] = true
			}
		}
	}
	rec()
	return acc
}

// SchedResult is what the schedule explorer covered for one case.
type SchedResult struct {
	Execs, Points, MaxPoints int
	Outcomes                 map[string]int
	Hot                      []string
	Rounds                   int
	Capped                   bool
	Bound                    int
}

type concFinding struct {
	Finding
	Schedule []int
	Hot      []string
}

// exploreSched is the preemption-bounded DFS over schedules, iterated to a fixpoint of
// the "hot" class set: preemption is offered at body yields, lock acquires and accesses
// of classes that have, in some explored execution, a location touched by two threads
// with at least one write. Accesses to locations only one thread touches, or that are
// only read, commute with every step of the other threads, so every execution is
// equivalent to one that switches threads only at hot points. (Data races are computed
// from all recorded accesses, hot or not.)
func exploreSched(c ConcCase, bound, cap int, check func(s *verifrt.Sched, cw *concWorld, sched []int, hot map[string]bool) []Finding) (*SchedResult, []concFinding) {
	res := &SchedResult{Outcomes: map[string]int{}, Bound: bound}
	hot := map[string]bool{}
	var findings []concFinding
	seenClause := map[string]bool{}
	for round := 0; ; round++ {
		res.Rounds = round + 1
		written := map[string]bool{}
		execs := 0
		var rec func(prefix []int)
		rec = func(prefix []int) {
			if res.Capped {
				return
			}
			if cap > 0 && execs >= cap {
				res.Capped = true
				return
			}
			cw := newConcWorld(c, false, verifrt.Cur)
			cw.w.Yield = true
			bodies := make([]func(), len(c.Threads))
			for t := range c.Threads {
				t := t
				bodies[t] = func() {
					for j, oi := range c.Threads[t] {
						cw.perform(t, j, oi)
					}
				}
			}
			hotCopy := map[string]bool{}
			for k, v := range hot {
				hotCopy[k] = v
			}
			s := verifrt.Run(bodies, prefix, hotCopy, 5000)
			execs++
			res.Execs++
			res.Points += len(s.Points)
			if len(s.Points) > res.MaxPoints {
				res.MaxPoints = len(s.Points)
			}
			if s.Diverged != "" {
				panic(HarnessPanic{s.Diverged})
			}
			for cl := range s.SharedWritten() {
				written[cl] = true
			}
			sched := make([]int, len(s.Points))
			for i, p := range s.Points {
				sched[i] = p.Chosen
			}
			var vec []string
			for t := range cw.outs {
				vec = append(vec, strings.Join(cw.outs[t], " ;; "))
			}
			res.Outcomes[strings.Join(vec, " ## ")]++
			for _, f := range check(s, cw, sched, hotCopy) {
				if !seenClause[f.Clause] {
					seenClause[f.Clause] = true
					var hl []string
					for k := range hotCopy {
						hl = append(hl, k)
					}
					sort.Strings(hl)
					findings = append(findings, concFinding{f, trimZeros(sched), hl})
				}
			}
			// branch
			pre := 0
			for i, p := range s.Points {
				if i >= len(prefix) {
					for alt := 1; alt < len(p.Enabled); alt++ {
						cost := pre
						if p.RunningEnabled {
							cost++
						}
						if cost > bound {
							continue
						}
						np := make([]int, i+1)
						copy(np, sched[:i])
						np[i] = alt
						rec(np)
					}
				}
				if p.Chosen != 0 && p.RunningEnabled {
					pre++
				}
			}
		}
		rec(nil)
		grew := false
		for cl := range written {
			if !hot[cl] {
				hot[cl] = true
				grew = true
			}
		}
		if !grew || res.Capped {
			break
		}
	}
	for k := range hot {
		res.Hot = append(res.Hot, k)
	}
	sort.Strings(res.Hot)
	return res, findings
}

// checkConc is the per-execution oracle.
func checkConc(prop string, c ConcCase, serial [][]map[string]bool) func(s *verifrt.Sched, cw *concWorld, sched []int, hot map[string]bool) []Finding {
	return func(s *verifrt.Sched, cw *concWorld, sched []int, hot map[string]bool) (fs []Finding) {
		add := func(clause, m string, a ...interface{}) { fs = append(fs, Finding{prop, clause, fmt.Sprintf(m, a...)}) }
		if s.Deadlock {
			add("deadlock", "no thread enabled while threads remain unfinished")
		}
		if s.Livelock {
			add("livelock", "scheduling-point budget exhausted")
		}
		for t, p := range s.Panics {
			if p != nil {
				add("panic", "thread %d panicked: %s", t, firstLine(fmt.Sprint(p)))
			}
		}
		if len(s.Unmodelled) > 0 {
			add("unmodelled-sync", "library uses synchronisation the scheduler does not model: %v", s.Unmodelled)
		}
		if prop == "C12" || c.Sub == "once" {
			for _, cf := range s.Conflicts() {
				if prop == "C11" && !strings.HasPrefix(cf.Class, "Func.once") {
					continue
				}
				add("race:"+cf.Class, "data race on %s: %s (write=%v) and %s (write=%v) by two threads, unordered", cf.Class, cf.SiteA, cf.WriteA, cf.SiteB, cf.WriteB)
			}
		}
		if s.Deadlock || s.Livelock {
			return
		}
		for t := range cw.outs {
			for j, got := range cw.outs[t] {
				if strings.Contains(got, "PANIC") {
					add("panic", "thread %d: %s", t, got)
					continue
				}
				if j < len(serial[t]) && !serial[t][j][got] {
					var opts []string
					for k := range serial[t][j] {
						opts = append(opts, k)
					}
					sort.Strings(opts)
					add("not-serial", "thread %d operation %d observed %q, which it observes in no sequential interleaving of the operations (sequential: %q)", t, j, got, opts)
				}
			}
		}
		if c.Sub == "once" && cw.w.Counts["o"] > 1 {
			add("ran-twice", "run-once body executed %d times", cw.w.Counts["o"])
		}
		return
	}
}

// enumConc enumerates the cases of a tier size.
func enumConc(sub string, k, maxOps int, f func(ConcCase)) {
	var opSeqs [][]int
	for a := range concOps {
		opSeqs = append(opSeqs, []int{a})
	}
	if maxOps >= 2 {
		for a := range concOps {
			for b := range concOps {
				opSeqs = append(opSeqs, []int{a, b})
			}
		}
	}
	forms := []int{0}
	if sub == "once" {
		forms = nil
		for i := range onceForms {
			forms = append(forms, i)
		}
	}
	var rec func(cur [][]int, start int)
	rec = func(cur [][]int, start int) {
		if len(cur) == k {
			for _, fm := range forms {
				f(ConcCase{Sub: sub, Form: fm, Threads: append([][]int{}, cur...)})
			}
			return
		}
		// threads are symmetric: enumerate multisets
		for i := start; i < len(opSeqs); i++ {
			rec(append(cur, opSeqs[i]), i)
		}
	}
	rec(nil, 0)
}

func init() {
	run := func(prop string) func(st Step, pick func(int) bool, stats *Stats, emit func(Replay)) {
		return func(st Step, pick func(int) bool, stats *Stats, emit func(Replay)) {
			idx := -1
			var subs []string
			switch prop {
			case "C12":
				subs = []string{"plain", "once"}
			case "C11":
				subs = []string{"once"}
			}
			k, maxOps := 2, 1
			switch st.Size {
			case 1:
				k, maxOps = 2, 2
			case 2:
				k, maxOps = 3, 1
			}
			for _, sub := range subs {
				enumConc(sub, k, maxOps, func(c ConcCase) {
					idx++
					if !pick(idx) {
						return
					}
					stats.Scenarios++
					stats.Premise++
					serial := serialOutcomes(c)
					res, fds := exploreSched(c, st.Bound, 30000, checkConc(prop, c, serial))
					stats.Execs += res.Execs
					stats.Points += res.Points
					if res.MaxPoints > stats.MaxPoints {
						stats.MaxPoints = res.MaxPoints
					}
					if len(res.Outcomes) > 1 {
						stats.Nontrivial++
					}
					stats.OutcomeHist[fmt.Sprint(len(res.Outcomes))]++
					for _, h := range res.Hot {
						stats.ActiveSites[h]++
					}
					if res.Capped {
						stats.Classes["capped"]++
					}
					if idx%40 == 5 {
						noteSample(func() string {
							return fmt.Sprintf("%s: %d schedules, <=%d scheduling points, preemption bound %d, hot classes %v, %d distinct outcome vectors", c, res.Execs, res.MaxPoints, st.Bound, res.Hot, len(res.Outcomes))
						})
					}
					for _, f := range fds {
						b, _ := json.Marshal(c)
						x, _ := json.Marshal(f.Hot)
						emit(Replay{Property: prop, Clause: f.Clause, Msg: f.Msg, Engine: "conc-" + prop, Tier: st.Tier, Extra: b, Choices: f.Schedule, Observed: string(x)})
					}
				})
			}
		}
	}
	replay := func(prop string) func(r Replay) []Finding {
		return func(r Replay) []Finding {
			var c ConcCase
			if err := json.Unmarshal(r.Extra, &c); err != nil {
				panic(HarnessPanic{"bad conc case: " + err.Error()})
			}
			var hotl []string
			json.Unmarshal([]byte(r.Observed), &hotl)
			hot := map[string]bool{}
			for _, h := range hotl {
				hot[h] = true
			}
			serial := serialOutcomes(c)
			cw := newConcWorld(c, false, verifrt.Cur)
			cw.w.Yield = true
			bodies := make([]func(), len(c.Threads))
			for t := range c.Threads {
				t := t
				bodies[t] = func() {
					for j, oi := range c.Threads[t] {
						cw.perform(t, j, oi)
					}
				}
			}
			s := verifrt.Run(bodies, r.Choices, hot, 5000)
			if s.Diverged != "" {
				panic(HarnessPanic{s.Diverged})
			}
			fmt.Printf("case: %s\nschedule=%v hot=%v\n", c, r.Choices, hotl)
			for t := range cw.outs {
				fmt.Printf("  thread %d: %s\n", t, strings.Join(cw.outs[t], " ;; "))
			}
			return checkConc(prop, c, serial)(s, cw, r.Choices, hot)
		}
	}
	doc := "k threads x 1-2 operations (Call on 3 shared targets incl. one with default options, Convert, Redefine) over shared converter Funcs and one shared option slice holding every option constructor; sub-tiers: ordinary converters / each form of a shared run-once converter; every schedule within the preemption bound under the cooperative scheduler"
	CaseTiers["conc-C12"] = &CaseTier{Name: "conc-C12", Doc: doc, Run: run("C12"), Replay: replay("C12")}
	CaseTiers["conc-C11"] = &CaseTier{Name: "conc-C11", Doc: doc, Run: run("C11"), Replay: replay("C11")}
	Plans["C12"] = map[string][]Step{
		"quick":    {{Tier: "conc-C12", Size: 0, Bound: 3}},
		"thorough": {{Tier: "conc-C12", Size: 0, Bound: 3}, {Tier: "conc-C12", Size: 1, Bound: 2}, {Tier: "conc-C12", Size: 2, Bound: 2}},
	}
	Plans["C11"] = map[string][]Step{
		"quick":    {{Tier: "hist-C11", Size: 3, Bound: 1}, {Tier: "conc-C11", Size: 0, Bound: 3}},
		"thorough": {{Tier: "hist-C11", Size: 4, Bound: 1}, {Tier: "conc-C11", Size: 0, Bound: 3}, {Tier: "conc-C11", Size: 1, Bound: 2}, {Tier: "conc-C11", Size: 2, Bound: 2}},
	}
}

var _ sync.Mutex
