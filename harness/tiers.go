package harness

import (
	"fmt"
	"strings"
)

// ---- enumeration helpers

func labelsOver(types []int, names, subs []string) []Label {
	var r []Label
	for _, t := range types {
		for _, n := range names {
			for _, s := range subs {
				r = append(r, Label{n, t, s})
			}
		}
	}
	return r
}

// subsetsUpTo: index subsets of size <= k, in lexicographic order, smallest first.
func subsetsUpTo(n, k int) [][]int {
	var res [][]int
	var rec func(start int, cur []int)
	rec = func(start int, cur []int) {
		res = append(res, append([]int{}, cur...))
		if len(cur) == k {
			return
		}
		for i := start; i < n; i++ {
			rec(i+1, append(cur, i))
		}
	}
	rec(0, nil)
	return res
}

// wellFormed (C06's definition): no repeated name, no two type-only entries of one type.
func wellFormed(ls []Label) bool {
	seenN := map[string]bool{}
	seenT := map[int]bool{}
	for _, l := range ls {
		if l.Name != "" {
			if seenN[l.Name] {
				return false
			}
			seenN[l.Name] = true
		} else {
			if seenT[l.T] {
				return false
			}
			seenT[l.T] = true
		}
	}
	return true
}

// inputsDistinct: inputs are keyed by the library as (name, subtype) when named and
// (type, subtype) when type-only; a later option with the same key replaces an earlier
// one (C16), so scenario inputs keep keys unique.
func inputsDistinct(ls []Label) bool {
	seen := map[string]bool{}
	for _, l := range ls {
		k := "n:" + l.Name + "/" + l.Sub
		if l.Name == "" {
			k = fmt.Sprintf("t:%d/%s", l.T, l.Sub)
		}
		if seen[k] {
			return false
		}
		seen[k] = true
	}
	return true
}

func mkInputs(ls []Label) []Input {
	var r []Input
	for i, l := range ls {
		r = append(r, Input{L: l, V: fmt.Sprintf("in%d", i)})
	}
	return r
}

func pick(ls []Label, idx []int) []Label {
	var r []Label
	for _, i := range idx {
		r = append(r, ls[i])
	}
	return r
}

func formFor(ls []Label) Form {
	if positionalOK(ls) {
		return FormPositional
	}
	return FormStruct
}

func mkTarget(in []Label) FuncSpec {
	return FuncSpec{ID: "tgt", In: in, InForm: formFor(in), Out: []Label{{"", 2, ""}}, OutForm: FormPositional}
}

// distinctFuncTypes: the vertex identity of a function is its Go type, so converters of
// one scenario must have pairwise different signatures (and differ from the target).
func distinctFuncTypes(fs []FuncSpec) bool {
	seen := map[string]bool{}
	for _, f := range fs {
		k := f.sig()
		if seen[k] {
			return false
		}
		seen[k] = true
	}
	return true
}

// Tier is a closed-form enumeration of scenarios.
type Tier struct {
	Name string
	Doc  string
	Gen  func(size int, emit func(Scenario))
}

var Tiers = map[string]*Tier{}

func reg(name, doc string, gen func(size int, emit func(Scenario))) {
	Tiers[name] = &Tier{name, doc, gen}
}

func init() {
	reg("direct", "1-2 parameters x <=2 inputs over one type, all 9 labels, no converter", func(size int, emit func(Scenario)) {
		ls := labelsOver([]int{0}, []string{"", "a", "b"}, []string{"", "x", "y"})
		for _, tp := range subsetsUpTo(len(ls), 2) {
			if len(tp) == 0 || !wellFormed(pick(ls, tp)) {
				continue
			}
			for _, in := range subsetsUpTo(len(ls), 2) {
				if !inputsDistinct(pick(ls, in)) {
					continue
				}
				t := mkTarget(pick(ls, tp))
				t.InForm = FormStruct
				emit(Scenario{Target: t, Inputs: mkInputs(pick(ls, in))})
			}
		}
	})

	reg("conv1", "one converter T1->T0 with every label pair, 1 parameter, <=2 inputs", func(size int, emit func(Scenario)) {
		subs := []string{"", "x"}
		if size >= 2 {
			subs = []string{"", "x", "y"}
		}
		maxIn := 2
		if size == 0 {
			maxIn = 1
		}
		l0 := labelsOver([]int{0}, []string{"", "a", "b"}, subs)
		l1 := labelsOver([]int{1}, []string{"", "a", "b"}, subs)
		all := append(append([]Label{}, l0...), l1...)
		for _, tp := range l0 {
			for _, ci := range l1 {
				for _, co := range l0 {
					for _, in := range subsetsUpTo(len(all), maxIn) {
						if !inputsDistinct(pick(all, in)) {
							continue
						}
						emit(Scenario{
							Target: FuncSpec{ID: "tgt", In: []Label{tp}, Out: []Label{{"", 2, ""}}, OutForm: FormPositional},
							Inputs: mkInputs(pick(all, in)),
							Convs:  []FuncSpec{{ID: "c1", In: []Label{ci}, Out: []Label{co}}},
						})
					}
				}
			}
		}
	})

	reg("conv2", "two single-input converters over 3 types x {typed,a} x {\"\",x}, <=1 input", func(size int, emit func(Scenario)) {
		all := labelsOver([]int{0, 1, 2}, []string{"", "a"}, []string{"", "x"})
		var convs []FuncSpec
		for _, i := range all {
			for _, o := range all {
				if i.T != o.T {
					convs = append(convs, FuncSpec{In: []Label{i}, Out: []Label{o}})
				}
			}
		}
		for _, tp := range all {
			for _, in := range subsetsUpTo(len(all), 1) {
				for _, cs := range subsetsUpTo(len(convs), 2) {
					if len(cs) != 2 {
						continue
					}
					c0, c1 := convs[cs[0]], convs[cs[1]]
					c0.ID, c1.ID = "c0", "c1"
					if !distinctFuncTypes([]FuncSpec{c0, c1}) {
						continue
					}
					emit(Scenario{
						Target: FuncSpec{ID: "tgt", In: []Label{tp}, Out: []Label{{"", 3, ""}}, OutForm: FormPositional},
						Inputs: mkInputs(pick(all, in)),
						Convs:  []FuncSpec{c0, c1},
					})
				}
			}
		}
	})

	reg("failsM3x2", "3 types, <=2 converters of <=2 inputs with error results, every subset failing (a failing converter reached inside the nested resolution of a multi-input converter)", chainsX(3, 2, true, 2, false))
	reg("failsMunsat3x2", "as failsM3x2 (converters of <=2 inputs), exactly one failing converter, whose error is a bare *ErrArgumentUnsatisfied (size 9) or wraps one (size 7)", chainsX(3, 2, true, 2, true))
	reg("failsunsat3x2", "as failsnil3x2, but the failing converter's error wraps an *ErrArgumentUnsatisfied of its own", chainsX(3, 2, true, 1, true))
	reg("failsnil3x2", "as fails3x2, but a failing converter returns a non-nil error interface holding a nil pointer; at most one failing converter per scenario", chainsX(3, 2, true, 1, true))
	chains := func(ntypes, maxConvs int, hasErr bool) func(size int, emit func(Scenario)) {
		return chainsX(ntypes, maxConvs, hasErr, 1, false)
	}
	reg("chains3x2", "unlabelled, 3 types, <=2 converters of <=2 inputs, 1-2 parameters, <=2 inputs (every 1-/2-cycle, self- and mutually dependent converters, providers)", chains(3, 2, false))
	reg("chains3x3", "as chains3x2 with <=3 converters", chains(3, 3, false))
	reg("chains4x2", "as chains3x2 over 4 types", chains(4, 2, false))
	reg("chains4x3", "as chains3x2 over 4 types with <=3 converters", chains(4, 3, false))
	reg("fails3x2", "3 types, <=2 single-input converters with error results, every subset failing", chains(3, 2, true))
	reg("fails3x3", "as fails3x2 with <=3 converters (chain depth 3)", chains(3, 3, true))
}

// chainsX: unlabelled converter graphs. errMaxIn bounds the inputs of error-returning
// converters; typedNil switches failing converters to typed-nil errors.
func chainsX(ntypes, maxConvs int, hasErr bool, errMaxIn int, typedNil bool) func(size int, emit func(Scenario)) {
	{
		return func(size int, emit func(Scenario)) {
			var types []int
			for i := 0; i < ntypes; i++ {
				types = append(types, i)
			}
			tl := labelsOver(types, []string{""}, []string{""})
			var convs []FuncSpec
			for _, in := range subsetsUpTo(ntypes, 2) {
				for _, out := range types {
					if hasErr {
						if len(in) > errMaxIn {
							continue
						}
						for _, fails := range []bool{false, true} {
							convs = append(convs, FuncSpec{In: pick(tl, in), Out: []Label{tl[out]}, InForm: FormPositional, OutForm: FormPositional, HasErr: true, Fails: fails, TypedNil: fails && typedNil && size != 7 && size != 9, UnsatErr: fails && typedNil && (size == 7 || size == 9)})
						}
					} else {
						convs = append(convs, FuncSpec{In: pick(tl, in), Out: []Label{tl[out]}, InForm: FormPositional, OutForm: FormPositional})
					}
				}
			}
			for _, tp := range subsetsUpTo(ntypes, 2) {
				if len(tp) == 0 {
					continue
				}
				for _, in := range subsetsUpTo(ntypes, 2) {
					for _, cs := range subsetsUpTo(len(convs), maxConvs) {
						var cl []FuncSpec
						for k, ci := range cs {
							c := convs[ci]
							c.ID = fmt.Sprintf("c%d", k)
							cl = append(cl, c)
						}
						if !distinctFuncTypes(cl) {
							continue
						}
						if typedNil {
							nf := 0
							for _, c := range cl {
								if c.Fails {
									nf++
								}
							}
							if nf != 1 {
								continue
							}
						}
						t := FuncSpec{ID: "tgt", In: pick(tl, tp), InForm: FormPositional, OutForm: FormPositional}
						// a converter with the target's own Go type would share its vertex
						clash := false
						for _, c := range cl {
							if c.sig() == t.sig() {
								clash = true
							}
						}
						if clash {
							continue
						}
						emit(Scenario{Target: t, Inputs: mkInputs(pick(tl, in)), Convs: cl, BareUnsat: size == 9})
					}
				}
			}
		}
	}
}

// TierSize enumerates a tier and returns its size.
func TierSize(name string, size int) int {
	n := 0
	Tiers[name].Gen(size, func(Scenario) { n++ })
	return n
}

func tierNames() string {
	var r []string
	for k := range Tiers {
		r = append(r, k)
	}
	return strings.Join(r, " ")
}
