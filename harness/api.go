package harness

import (
	"encoding/json"
	"errors"
	"fmt"
	"os"
	"reflect"
	"strings"
	"time"

	am "github.com/hashicorp/go-argmapper"
	"github.com/hashicorp/go-argmapper/internal/verifrt"
)

// API-level checks (C14-C17): exhaustive enumeration of signatures / value lists /
// option lists / result shapes, each case executed on the real library under sorted
// and globally reversed map order, compared with a reference computed from the spec.

type apiCase struct {
	Desc string
	Run  func() []Finding
}

type apiRef struct {
	Prop  string `json:"prop"`
	Mode  string `json:"mode"`
	Index int    `json:"index"`
	Desc  string `json:"desc"`
}

var apiEnums = map[string]func(mode string, emit func(apiCase)){}

func runAPICase(c apiCase) (fs []Finding) {
	defer func() {
		if r := recover(); r != nil {
			switch x := r.(type) {
			case verifrt.HarnessError:
				panic(HarnessPanic{x.Msg})
			case HarnessPanic:
				panic(x)
			}
			fs = append(fs, Finding{"", "panic", fmt.Sprintf("panic: %v", r)})
		}
	}()
	verifrt.ResetBudget()
	return c.Run()
}

func apiCheck(self, prop, mode string) int {
	t0 := time.Now()
	res := &RunResult{Stats: newStats()}
	idx := -1
	apiEnums[prop](mode, func(c apiCase) {
		idx++
		res.Stats.Scenarios++
		res.Stats.Premise++
		res.Stats.Nontrivial++
		if idx%211 == 3 && len(res.Samples) < 8 {
			res.Samples = append(res.Samples, c.Desc)
		}
		seen := map[string]bool{}
		for _, reverse := range []bool{false, true} {
			var fs []Finding
			_, pts := OrderRun(nil, reverse, nil, func() { fs = runAPICase(c) })
			res.Stats.Execs++
			res.Stats.Points += len(pts) + 1
			for _, f := range fs {
				if seen[f.Clause] {
					continue
				}
				seen[f.Clause] = true
				b, _ := json.Marshal(apiRef{prop, mode, idx, c.Desc})
				res.Findings = append(res.Findings, Replay{Property: prop, Clause: f.Clause, Msg: f.Msg, Engine: "api", Extra: b, Reverse: reverse})
			}
		}
	})
	fmt.Printf("%s %s: %d cases enumerated\n", prop, mode, idx+1)
	if prop == "C16" {
		// histories whose option lists share storage (no Redefine steps): in-process too
		size := 4
		if mode == "thorough" {
			size = 5
		}
		CaseTiers["alias-C16"].Run(Step{Tier: "alias-C16", Size: size}, func(int) bool { return true }, res.Stats, func(r Replay) {
			res.Findings = append(res.Findings, r)
		})
		// histories in which the caller reuses its option values
		rss := []Step{{Tier: "argreuse-C16", Size: 2, Bound: 2}}
		for _, rs := range rss {
			CaseTiers["argreuse-C16"].Run(rs, func(int) bool { return true }, res.Stats, func(r Replay) {
				res.Findings = append(res.Findings, r)
			})
		}
		res.Samples = append(res.Samples, caseSamples...)
	}
	return Conclude(prop, mode, res, nil, t0, "exhaustive enumeration of API cases (signatures / value lists / option lists / result shapes), each executed on the real library under sorted and reversed map order against a reference computed from the case description; transitions = executions + choice points")
}

func apiReplay(r Replay, path string) int {
	var ref apiRef
	if err := json.Unmarshal(r.Extra, &ref); err != nil {
		fmt.Fprintln(os.Stderr, err)
		return 2
	}
	idx := -1
	status := 0
	apiEnums[ref.Prop](ref.Mode, func(c apiCase) {
		idx++
		if idx != ref.Index {
			return
		}
		var fs []Finding
		OrderRun(nil, r.Reverse, nil, func() { fs = runAPICase(c) })
		fmt.Printf("case %d: %s\n", idx, c.Desc)
		for _, f := range fs {
			fmt.Printf("  %s: %s\n", f.Clause, f.Msg)
		}
		if len(fs) > 0 {
			fmt.Printf("VIOLATION property=%s replay=%s\n", r.Property, path)
			status = 1
		} else {
			fmt.Println("no violation reproduced")
		}
	})
	return status
}

func init() {
	for _, p := range []string{"C14", "C15", "C16", "C17"} {
		CustomChecks[p] = apiCheck
	}
	CustomReplays["api"] = apiReplay
}

// ------------------------------------------------------------------ C14

type myErr struct{ M string }

func (e *myErr) Error() string {
	if e == nil {
		return "<nil *myErr>"
	}
	return e.M
}

var myErrType = reflect.TypeOf((*myErr)(nil))

// static struct types: reflect.StructOf cannot make unexported fields
type sUnexpA struct {
	am.Struct
	Alpha T0
	beta  T1
	Gamma T2 `argmapper:"x"`
}
type sUnexpB struct {
	am.Struct
	alpha T0
	Beta  T1 `argmapper:",typeOnly"`
}
type sUnexpC struct {
	am.Struct
	Alpha T0 `argmapper:"Q,subtype=s"`
	Beta  T1
	gamma T2 `argmapper:"x"`
}
type sUnexpD struct {
	am.Struct
	alpha T0
}

// an embedded exported type next to the marker is an ordinary field named after the type
type Emb struct{ P string }
type sEmbedded struct {
	am.Struct
	Emb
	Alpha T0
}
type sEmbeddedPtr struct {
	am.Struct
	Alpha T0
	*Emb  `argmapper:",typeOnly"`
}

// the embedded marker need not be the first field (reflect.StructOf can only embed a
// type with methods in first position, so these are declared statically)
type sMarkerMid struct {
	Alpha T0
	am.Struct
	Beta T1 `argmapper:",typeOnly"`
}
type sMarkerLast struct {
	Alpha T0 `argmapper:"x,subtype=s"`
	Beta  T1
	am.Struct
}

var _ = sUnexpA{}.beta
var _ = sUnexpB{}.alpha
var _ = sUnexpC{}.gamma
var _ = sUnexpD{}.alpha

type fieldSpec struct {
	Name string // Go field name
	T    int
	Tag  string // full argmapper tag ("" = none)
}

func (f fieldSpec) expect() am.Value {
	name := f.Name
	sub := ""
	typeOnly := false
	if f.Tag != "" {
		parts := strings.Split(f.Tag, ",")
		if parts[0] != "" {
			name = parts[0]
		}
		for _, p := range parts[1:] {
			if p == "typeOnly" {
				typeOnly = true
			}
			if strings.HasPrefix(p, "subtype=") {
				sub = strings.TrimPrefix(p, "subtype=")
			}
		}
	}
	name = strings.ToLower(name)
	if typeOnly {
		name = ""
	}
	return am.Value{Name: name, Type: typeOf(f.T), Subtype: sub}
}

func structOfFields(fs []fieldSpec) reflect.Type { return structOfFieldsAt(fs, 0) }

// structOfFieldsAt places the embedded marker after markerPos ordinary fields.
func structOfFieldsAt(fs []fieldSpec, markerPos int) reflect.Type {
	var sf []reflect.StructField
	marker := reflect.StructField{Name: "Struct", Type: markerType, Anonymous: true}
	for i, f := range fs {
		if i == markerPos {
			sf = append(sf, marker)
		}
		x := reflect.StructField{Name: f.Name, Type: typeOf(f.T)}
		if f.Tag != "" {
			x.Tag = reflect.StructTag(fmt.Sprintf(`argmapper:"%s"`, f.Tag))
		}
		sf = append(sf, x)
	}
	if markerPos >= len(fs) {
		sf = append(sf, marker)
	}
	return reflect.StructOf(sf)
}

func valuesEqual(got []am.Value, want []am.Value) string {
	if len(got) != len(want) {
		return fmt.Sprintf("%d values, want %d", len(got), len(want))
	}
	for i := range got {
		if got[i].Name != want[i].Name || got[i].Type != want[i].Type || got[i].Subtype != want[i].Subtype {
			return fmt.Sprintf("value %d is (%q,%v,%q), want (%q,%v,%q)", i, got[i].Name, got[i].Type, got[i].Subtype, want[i].Name, want[i].Type, want[i].Subtype)
		}
	}
	return ""
}

func descValues(vs []am.Value) string {
	var r []string
	for _, v := range vs {
		r = append(r, v.String())
	}
	return "[" + strings.Join(r, "; ") + "]"
}

// checkSet compares a ValueSet with the expected descriptor list through every accessor.
func checkSet(what string, vs *am.ValueSet, want []am.Value, add func(clause, m string, a ...interface{})) {
	if vs == nil {
		add(what+"-nil", "%s set is nil", what)
		return
	}
	if d := valuesEqual(vs.Values(), want); d != "" {
		add(what+"-values", "%s.Values() = %s: %s", what, descValues(vs.Values()), d)
		return
	}
	typeCount := map[reflect.Type]int{}
	tsCount := map[string]int{}
	for _, w := range want {
		if w.Name == "" {
			typeCount[w.Type]++
		}
		tsCount[w.Type.String()+"/"+w.Subtype]++
	}
	for _, w := range want {
		if w.Name != "" {
			v := vs.Named(w.Name)
			if v == nil || v.Name != w.Name || v.Type != w.Type || v.Subtype != w.Subtype {
				add(what+"-named", "%s.Named(%q) = %v", what, w.Name, v)
			}
		} else if typeCount[w.Type] == 1 {
			v := vs.Typed(w.Type)
			if v == nil || v.Name != "" || v.Type != w.Type || v.Subtype != w.Subtype {
				add(what+"-typed", "%s.Typed(%v) = %v", what, w.Type, v)
			}
		}
		if tsCount[w.Type.String()+"/"+w.Subtype] == 1 {
			v := vs.TypedSubtype(w.Type, w.Subtype)
			if v == nil || v.Name != w.Name || v.Type != w.Type || v.Subtype != w.Subtype {
				add(what+"-typedsubtype", "%s.TypedSubtype(%v,%q) = %v", what, w.Type, w.Subtype, v)
			}
		}
	}
}

func sigCase(desc string, in, out []reflect.Type, wantIn, wantOut []am.Value, reject bool) apiCase {
	return apiCase{Desc: desc, Run: func() (fs []Finding) {
		add := func(clause, m string, a ...interface{}) {
			fs = append(fs, Finding{"C14", clause, desc + ": " + fmt.Sprintf(m, a...)})
		}
		ft := reflect.FuncOf(in, out, false)
		fn := reflect.MakeFunc(ft, func([]reflect.Value) []reflect.Value { return nil }).Interface()
		f, err := am.NewFunc(fn)
		if reject {
			if err == nil {
				add("not-rejected", "signature the library cannot honour was accepted")
			}
			return
		}
		if err != nil {
			add("rejected", "accepted shape was rejected: %v", err)
			return
		}
		checkSet("Input()", f.Input(), wantIn, add)
		checkSet("Output()", f.Output(), wantOut, add)
		return
	}}
}

func typeNames(ts []reflect.Type) string {
	var r []string
	for _, t := range ts {
		r = append(r, t.String())
	}
	return strings.Join(r, ",")
}

func init() {
	apiEnums["C14"] = func(mode string, emit func(apiCase)) {
		maxF := 3
		if mode == "thorough" {
			maxF = 4
		}
		simpleOut := []reflect.Type{typeOf(2)}
		simpleOutV := []am.Value{{Type: typeOf(2)}}
		// positional lists of 0-3 types (repeats allowed)
		var posLists [][]int
		var rec func(cur []int)
		rec = func(cur []int) {
			posLists = append(posLists, append([]int{}, cur...))
			if len(cur) == 3 {
				return
			}
			for t := 0; t < 3; t++ {
				rec(append(cur, t))
			}
		}
		rec(nil)
		toTypes := func(ts []int) (r []reflect.Type, vs []am.Value) {
			for _, t := range ts {
				r = append(r, typeOf(t))
				vs = append(vs, am.Value{Type: typeOf(t)})
			}
			return
		}
		for _, pl := range posLists {
			in, vin := toTypes(pl)
			emit(sigCase("func("+typeNames(in)+") T2", in, simpleOut, vin, simpleOutV, false))
		}
		// results: positional lists with error / *myErr inserted at every position
		resElems := []reflect.Type{typeOf(0), typeOf(1), errType, myErrType}
		var resLists [][]reflect.Type
		var rec2 func(cur []reflect.Type)
		rec2 = func(cur []reflect.Type) {
			resLists = append(resLists, append([]reflect.Type{}, cur...))
			if len(cur) == 3 {
				return
			}
			for _, t := range resElems {
				rec2(append(cur, t))
			}
		}
		rec2(nil)
		for _, rl := range resLists {
			want := []am.Value{}
			n := len(rl)
			if n > 0 && rl[n-1] == errType {
				n--
			}
			for _, t := range rl[:n] {
				want = append(want, am.Value{Type: t})
			}
			emit(sigCase("func(T0) ("+typeNames(rl)+")", []reflect.Type{typeOf(0)}, rl, []am.Value{{Type: typeOf(0)}}, want, false))
		}
		// struct forms: field lists from the menu
		names := []string{"Alpha", "Beta", "Gamma", "Delta"}
		tags := []string{"", "X", "x", ",typeOnly", ",subtype=s", "X,subtype=s", ",typeOnly,subtype=s", "Yy"}
		var lists [][]fieldSpec
		var rec3 func(cur []fieldSpec)
		rec3 = func(cur []fieldSpec) {
			if len(cur) > 0 {
				lists = append(lists, append([]fieldSpec{}, cur...))
			}
			if len(cur) == maxF {
				return
			}
			for t := 0; t < 3; t++ {
				for _, tag := range tags {
					rec3(append(cur, fieldSpec{names[len(cur)], t, tag}))
				}
			}
		}
		rec3(nil)
		lists = append(lists, nil) // marker-only struct
		for _, fl := range lists {
			var want []am.Value
			for _, f := range fl {
				want = append(want, f.expect())
			}
			// well-formedness: distinct names, one type-only field per type
			wl := []Label{}
			for _, w := range want {
				wl = append(wl, Label{w.Name, typeIndex(w.Type), w.Subtype})
			}
			if !wellFormed(wl) {
				continue
			}
			if want == nil {
				want = []am.Value{}
			}
			st := structOfFields(fl)
			var fd []string
			for _, f := range fl {
				fd = append(fd, fmt.Sprintf("%s T%d `%s`", f.Name, f.T, f.Tag))
			}
			d := "struct{" + strings.Join(fd, "; ") + "}"
			emit(sigCase("func("+d+") T2", []reflect.Type{st}, simpleOut, want, simpleOutV, false))
			emit(sigCase("func(*"+d+") T2", []reflect.Type{reflect.PtrTo(st)}, simpleOut, want, simpleOutV, false))
			emit(sigCase("func(T0) "+d, []reflect.Type{typeOf(0)}, []reflect.Type{st}, []am.Value{{Type: typeOf(0)}}, want, false))
			emit(sigCase("func(T0) (*"+d+", error)", []reflect.Type{typeOf(0)}, []reflect.Type{reflect.PtrTo(st), errType}, []am.Value{{Type: typeOf(0)}}, want, false))
			if len(fl) <= 1 {
				// rejected shapes built around this struct
				emit(sigCase("func("+d+", T0) [mixed]", []reflect.Type{st, typeOf(0)}, nil, nil, nil, true))
				emit(sigCase("func(T0, *"+d+") [mixed]", []reflect.Type{typeOf(0), reflect.PtrTo(st)}, nil, nil, nil, true))
				emit(sigCase("func(**"+d+") [double pointer]", []reflect.Type{reflect.PtrTo(reflect.PtrTo(st))}, nil, nil, nil, true))
				emit(sigCase("func() ("+d+", T0) [mixed result]", nil, []reflect.Type{st, typeOf(0)}, nil, nil, true))
				emit(sigCase("func() (T0, "+d+", error) [mixed result]", nil, []reflect.Type{typeOf(0), st, errType}, nil, nil, true))
				emit(sigCase("func() **"+d+" [double pointer result]", nil, []reflect.Type{reflect.PtrTo(reflect.PtrTo(st))}, nil, nil, true))
			}
		}
		// static structs with unexported fields
		type static struct {
			t    reflect.Type
			want []am.Value
		}
		for _, sc := range []static{
			{reflect.TypeOf(sUnexpA{}), []am.Value{{Name: "alpha", Type: typeOf(0)}, {Name: "x", Type: typeOf(2)}}},
			{reflect.TypeOf(sUnexpB{}), []am.Value{{Type: typeOf(1)}}},
			{reflect.TypeOf(sUnexpC{}), []am.Value{{Name: "q", Type: typeOf(0), Subtype: "s"}, {Name: "beta", Type: typeOf(1)}}},
			{reflect.TypeOf(sUnexpD{}), []am.Value{}},
			{reflect.TypeOf(sMarkerMid{}), []am.Value{{Name: "alpha", Type: typeOf(0)}, {Type: typeOf(1)}}},
			{reflect.TypeOf(sMarkerLast{}), []am.Value{{Name: "x", Type: typeOf(0), Subtype: "s"}, {Name: "beta", Type: typeOf(1)}}},
			{reflect.TypeOf(sEmbedded{}), []am.Value{{Name: "emb", Type: reflect.TypeOf(Emb{})}, {Name: "alpha", Type: typeOf(0)}}},
			{reflect.TypeOf(sEmbeddedPtr{}), []am.Value{{Name: "alpha", Type: typeOf(0)}, {Type: reflect.TypeOf(&Emb{})}}},
		} {
			emit(sigCase("func("+sc.t.String()+") T2", []reflect.Type{sc.t}, simpleOut, sc.want, simpleOutV, false))
			emit(sigCase("func(*"+sc.t.String()+") T2", []reflect.Type{reflect.PtrTo(sc.t)}, simpleOut, sc.want, simpleOutV, false))
			emit(sigCase("func() "+sc.t.String(), nil, []reflect.Type{sc.t}, []am.Value{}, sc.want, false))
			emit(sigCase("func() (*"+sc.t.String()+", error)", nil, []reflect.Type{reflect.PtrTo(sc.t), errType}, []am.Value{}, sc.want, false))
			emit(sigCase("func(T0, "+sc.t.String()+") [mixed]", []reflect.Type{typeOf(0), sc.t}, nil, nil, nil, true))
			emit(sigCase("func() ("+sc.t.String()+", T0) [mixed result]", nil, []reflect.Type{sc.t, typeOf(0)}, nil, nil, true))
			emit(sigCase("func(**"+sc.t.String()+") [double pointer]", []reflect.Type{reflect.PtrTo(reflect.PtrTo(sc.t))}, nil, nil, nil, true))
		}
		// non-function values
		for _, nf := range []struct {
			d string
			v interface{}
		}{{"42", 42}, {`"s"`, "s"}, {"struct{}{}", struct{}{}}, {"nil", nil}, {"(*int)(nil)", (*int)(nil)}, {"[]int{}", []int{}}} {
			nf := nf
			emit(apiCase{Desc: "NewFunc(" + nf.d + ")", Run: func() (fs []Finding) {
				f, err := am.NewFunc(nf.v)
				if err == nil || f != nil {
					fs = append(fs, Finding{"C14", "not-rejected", "NewFunc(" + nf.d + ") was accepted"})
				}
				return
			}})
		}
	}
}

// ------------------------------------------------------------------ C17

func init() {
	apiEnums["C17"] = func(mode string, emit func(apiCase)) {
		type elem struct {
			t    reflect.Type
			name string
		}
		elems := []elem{{typeOf(0), "T0"}, {typeOf(1), "T1"}, {errType, "error"}, {myErrType, "*myErr"}}
		var lists [][]elem
		var rec func(cur []elem)
		rec = func(cur []elem) {
			lists = append(lists, append([]elem{}, cur...))
			if len(cur) == 4 {
				return
			}
			for _, e := range elems {
				rec(append(cur, e))
			}
		}
		rec(nil)
		for _, l := range lists {
			hasFinalErr := len(l) > 0 && l[len(l)-1].t == errType
			variants := []string{"nil"}
			if hasFinalErr {
				variants = []string{"nil", "nonnil", "typednil"}
			}
			for _, v := range variants {
				l, v := l, v
				var tn []string
				for _, e := range l {
					tn = append(tn, e.name)
				}
				desc := fmt.Sprintf("func() (%s) final error %s", strings.Join(tn, ","), v)
				emit(apiCase{Desc: desc, Run: func() (fs []Finding) {
					add := func(clause, m string, a ...interface{}) {
						fs = append(fs, Finding{"C17", clause, desc + ": " + fmt.Sprintf(m, a...)})
					}
					finalErr := errors.New("final")
					var types []reflect.Type
					var ret []reflect.Value
					var wantOut []interface{}
					for i, e := range l {
						types = append(types, e.t)
						last := i == len(l)-1
						switch {
						case e.t == errType && last:
							if v == "nonnil" {
								ret = append(ret, reflect.ValueOf(&finalErr).Elem())
							} else if v == "typednil" {
								// a non-nil error interface holding a nil pointer: err != nil
								var p *myErr
								finalErr = p
								ret = append(ret, reflect.ValueOf(&finalErr).Elem())
							} else {
								ret = append(ret, reflect.Zero(errType))
							}
						case e.t == errType:
							// an ordinary output that happens to be of type error: alternate nil / non-nil
							if i%2 == 0 {
								x := error(&myErr{fmt.Sprintf("mid%d", i)})
								ret = append(ret, reflect.ValueOf(&x).Elem())
								wantOut = append(wantOut, x)
							} else {
								ret = append(ret, reflect.Zero(errType))
								wantOut = append(wantOut, nil)
							}
						case e.t == myErrType:
							x := &myErr{fmt.Sprintf("conc%d", i)}
							ret = append(ret, reflect.ValueOf(x))
							wantOut = append(wantOut, x)
						default:
							x := mkVal(typeIndex(e.t), fmt.Sprintf("out%d", i))
							ret = append(ret, x)
							wantOut = append(wantOut, x.Interface())
						}
					}
					fn := reflect.MakeFunc(reflect.FuncOf(nil, types, false), func([]reflect.Value) []reflect.Value { return ret }).Interface()
					f, err := am.NewFunc(fn)
					if err != nil {
						// result lists repeating a type positionally are accepted by the library
						add("rejected", "NewFunc: %v", err)
						return
					}
					r := f.Call()
					k := len(l)
					if hasFinalErr {
						k--
					}
					if r.Len() != k {
						add("len", "Len()=%d, want %d", r.Len(), k)
						return
					}
					for i := 0; i < k; i++ {
						if got := r.Out(i); got != wantOut[i] {
							add("out", "Out(%d)=%v, want %v", i, got, wantOut[i])
						}
					}
					switch {
					case hasFinalErr && (v == "nonnil" || v == "typednil"):
						if r.Err() != finalErr {
							add("err", "Err()=%v, want the final error value", r.Err())
						}
					default:
						if r.Err() != nil {
							add("err-nil", "Err()=%v, want nil", r.Err())
						}
					}
					return
				}})
			}
		}
		// outputs of marker-struct form (and pointers to them) are returned as they are,
		// also when the function is memoized and was first needed as a converter
		type outS struct {
			am.Struct
			A T0
		}
		for _, once := range []bool{false, true} {
			for _, ptr := range []bool{false, true} {
				for _, convFirst := range []bool{false, true} {
					once, ptr, convFirst := once, ptr, convFirst
					desc := fmt.Sprintf("marker-struct output (pointer=%v) once=%v used-as-converter-first=%v, then called directly twice", ptr, once, convFirst)
					emit(apiCase{Desc: desc, Run: func() (fs []Finding) {
						add := func(clause, m string, a ...interface{}) {
							fs = append(fs, Finding{"C17", clause, desc + ": " + fmt.Sprintf(m, a...)})
						}
						n := 0
						var last interface{}
						var fn interface{}
						if ptr {
							fn = func() (*outS, error) { n++; v := &outS{A: T0{fmt.Sprintf("r%d", n)}}; last = v; return v, nil }
						} else {
							fn = func() (outS, error) { n++; v := outS{A: T0{fmt.Sprintf("r%d", n)}}; last = v; return v, nil }
						}
						var opts []am.Arg
						if once {
							opts = append(opts, am.FuncOnce())
						}
						f, err := am.NewFunc(fn, opts...)
						if err != nil {
							add("rejected", "NewFunc: %v", err)
							return
						}
						if convFirst {
							consumer := am.MustFunc(am.NewFunc(func(in struct {
								am.Struct
								A T0
							}) string {
								return in.A.P
							}))
							if r := consumer.Call(am.ConverterFunc(f)); r.Err() != nil || r.Out(0) != "r1" {
								add("as-converter", "consumer observed %v err=%v", r.Out(0), r.Err())
								return
							}
						}
						for call := 0; call < 2; call++ {
							r := f.Call()
							if r.Err() != nil || r.Len() != 1 {
								add("len", "call %d: Len()=%d Err()=%v", call, r.Len(), r.Err())
								return
							}
							if got := r.Out(0); got != last {
								add("out", "call %d: Out(0)=%#v (%T), the function returned %#v (%T)", call, got, got, last, last)
							}
						}
						return
					}})
				}
			}
		}
		// resolution failures: length 0 and a non-nil error
		fail := func(desc string, mk func() am.Result) {
			emit(apiCase{Desc: desc, Run: func() (fs []Finding) {
				r := mk()
				if r.Len() != 0 {
					fs = append(fs, Finding{"C17", "fail-len", fmt.Sprintf("%s: Len()=%d on failed resolution", desc, r.Len())})
				}
				if r.Err() == nil {
					fs = append(fs, Finding{"C17", "fail-err", desc + ": Err()==nil on failed resolution"})
				}
				return
			}})
		}
		for _, l := range lists {
			if len(l) > 3 {
				continue
			}
			var types []reflect.Type
			for _, e := range l {
				types = append(types, e.t)
			}
			var tn []string
			for _, e := range l {
				tn = append(tn, e.name)
			}
			mkf := func() *am.Func {
				ft := reflect.FuncOf([]reflect.Type{typeOf(2)}, types, false)
				return am.MustFunc(am.NewFunc(reflect.MakeFunc(ft, func([]reflect.Value) []reflect.Value { panic("target must not run") }).Interface()))
			}
			fail("unsatisfied func(T2) ("+strings.Join(tn, ",")+")", func() am.Result { return mkf().Call() })
			fail("nil option func(T2) ("+strings.Join(tn, ",")+")", func() am.Result { return mkf().Call(am.Typed(T2{"x"}), nil) })
			fail("failing converter func(T2) ("+strings.Join(tn, ",")+")", func() am.Result {
				return mkf().Call(am.Typed(T1{"x"}), am.Converter(func(T1) (T2, error) { return T2{}, errors.New("conv") }))
			})
		}
	}
}
