package harness

import "fmt"

func init() {
	// ---- namedcycle (C05): everything carries one name. Two same-named inputs that
	// differ in type and subtype, single-input struct-form converters between four
	// same-named values including the bidirectional pair a:T1 <-> a:T2. While a named
	// argument is resolved the name discount makes every "named value -> converter ->
	// named value" hop free, so there are many equal-cost routes and the choice between
	// them is made anew (by iteration order) inside every converter on the way.
	reg("namedcycle", "inputs a:T0/x and a:T3/y; 3-4 of the six single-input struct-form converters a:T0/x->a:T1, a:T0/x->a:T2, a:T3/y->a:T1, a:T3/y->a:T2, a:T1->a:T2, a:T2->a:T1; target a:T1 or a:T2", func(size int, emit func(Scenario)) {
		in := []Label{{"a", 0, "x"}, {"a", 3, "y"}}
		mid := []Label{{"a", 1, ""}, {"a", 2, ""}}
		var cands []FuncSpec
		for _, i := range in {
			for _, m := range mid {
				cands = append(cands, FuncSpec{In: []Label{i}, Out: []Label{m}})
			}
		}
		cands = append(cands, FuncSpec{In: []Label{mid[0]}, Out: []Label{mid[1]}}, FuncSpec{In: []Label{mid[1]}, Out: []Label{mid[0]}})
		for _, cs := range subsetsUpTo(len(cands), 4) {
			if len(cs) < 3 {
				continue
			}
			for _, t := range mid {
				s := Scenario{Target: FuncSpec{ID: "t", In: []Label{t}, Out: []Label{{"", 4, ""}}, OutForm: FormPositional}}
				s.Inputs = mkInputs(in)
				for k, ci := range cs {
					c := cands[ci]
					c.ID = fmt.Sprintf("c%d", k)
					s.Convs = append(s.Convs, c)
				}
				emit(s)
			}
		}
	})

	// ---- redefzero (C08): the redef scenarios with every supplied value being the zero
	// value of its type (the other tiers only ever supply values carrying a non-empty
	// provenance string, so "is this the zero value?" could stand in for "was this
	// supplied?" unnoticed).
	reg("redefzero", "the redef tier's scenarios that supply at least one input, every supplied value being the zero value of its type; structural clauses only (filter, resupplied, callability)", func(size int, emit func(Scenario)) {
		Tiers["redef"].Gen(size, func(s Scenario) {
			if len(s.Inputs) == 0 {
				return
			}
			ins := make([]Input, len(s.Inputs))
			for i, in := range s.Inputs {
				ins[i] = Input{L: in.L}
			}
			s.Inputs = ins
			emit(s)
		})
	})

	// ---- redefprov (C08/C09): the redef scenarios that use a zero-argument converter
	// publishing a *named* value.
	reg("redefprov", "the redef tier (same size parameter) extended by a zero-argument converter publishing the named value a:T0; only the scenarios that use it", func(size int, emit func(Scenario)) {
		Tiers["redef"].Gen(size+10, func(s Scenario) {
			for _, c := range s.Convs {
				if len(c.In) == 0 && len(c.Out) == 1 && c.Out[0].Name == "a" {
					emit(s)
					return
				}
			}
		})
	})
}
