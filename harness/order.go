package harness

import (
	"fmt"
	"strings"

	"github.com/hashicorp/go-argmapper/internal/verifrt"
)

// E2: deviation-bounded stateless DFS over map iteration orders. An execution is a
// run under a sequence of choices, one per choice point met (a range over a map with
// >= 2 keys at a non-passive site). Choice 0 is sorted order.

type point struct {
	site  string
	n     int
	nalts int
}

// Permutation family: all n! for n <= 4; beyond that identity, the n-1 rotations
// (what Go's runtime does for one-bucket maps), the reversal and, when wide, the n-1
// adjacent transpositions. For any two keys the family has an order with either first.
var widePerms = false

func fact(n int) int {
	f := 1
	for i := 2; i <= n; i++ {
		f *= i
	}
	return f
}

func nAlts(n int) int {
	if n <= 4 {
		return fact(n)
	}
	if widePerms {
		return n + 1 + (n - 1)
	}
	return n + 1
}

var permCache = map[int][][]int{}

func allPerms(n int) [][]int {
	if r, ok := permCache[n]; ok {
		return r
	}
	var res [][]int
	var rec func(cur []int, used []bool)
	rec = func(cur []int, used []bool) {
		if len(cur) == n {
			res = append(res, append([]int{}, cur...))
			return
		}
		for i := 0; i < n; i++ {
			if !used[i] {
				used[i] = true
				rec(append(cur, i), used)
				used[i] = false
			}
		}
	}
	rec(nil, make([]bool, n))
	permCache[n] = res
	return res
}

func permFor(n, alt int) []int {
	if alt == 0 {
		return nil
	}
	if n <= 4 {
		return allPerms(n)[alt]
	}
	p := make([]int, n)
	switch {
	case alt < n: // rotation
		for i := range p {
			p[i] = (i + alt) % n
		}
	case alt == n: // reversal
		for i := range p {
			p[i] = n - 1 - i
		}
	default: // adjacent transposition
		for i := range p {
			p[i] = i
		}
		k := alt - n - 1
		p[k], p[k+1] = p[k+1], p[k]
	}
	return p
}

// passiveSite: sites whose order cannot influence behaviour (String() sorts).
func passiveSite(site string) bool {
	return strings.HasPrefix(site, "Graph.String#")
}

// PureOrder is true while the current execution uses one global order policy (sorted
// everywhere, or reversed everywhere): differential oracles that compare two calls
// are evaluated only then.
var PureOrder = true

// ReverseOrder is true while the current execution is the globally reversed one.
var ReverseOrder = false

// WithPureChooser runs f (a reference / differential run) under the same global order
// policy as the current pure execution, outside the explored choice sequence: its
// choice points are not branch points of the DFS.
func WithPureChooser(f func()) {
	saved := verifrt.Choose
	if ReverseOrder {
		verifrt.Choose = func(site string, n int) []int {
			if passiveSite(site) {
				return nil
			}
			p := make([]int, n)
			for k := range p {
				p[k] = n - 1 - k
			}
			return p
		}
	} else {
		verifrt.Choose = nil
	}
	defer func() { verifrt.Choose = saved }()
	f()
}

// ReplayDivergence is a harness error: a recorded choice sequence met a different
// choice structure than when it was recorded.
type ReplayDivergence struct{ Msg string }

// OrderRun executes run() once under the choice prefix (then choice 0), returning
// the full choice sequence and the points met. reverse=true flips every site
// (globally reversed order) instead of using choices.
func OrderRun(prefix []int, reverse bool, siteFilter func(string) bool, run func()) (choices []int, pts []point) {
	i := 0
	PureOrder = true
	ReverseOrder = reverse
	for _, c := range prefix {
		if c != 0 {
			PureOrder = false
		}
	}
	verifrt.Choose = func(site string, n int) []int {
		if passiveSite(site) {
			return nil
		}
		if reverse {
			p := make([]int, n)
			for k := range p {
				p[k] = n - 1 - k
			}
			pts = append(pts, point{site, n, 0})
			return p
		}
		na := nAlts(n)
		if siteFilter != nil && !siteFilter(site) {
			na = 1
		}
		c := 0
		if i < len(prefix) {
			c = prefix[i]
		}
		if c >= na {
			panic(HarnessPanic{fmt.Sprintf("order replay divergence at point %d site %s: choice %d of %d", i, site, c, na)})
		}
		i++
		choices = append(choices, c)
		pts = append(pts, point{site, n, na})
		return permFor(n, c)
	}
	defer func() { verifrt.Choose = nil }()
	run()
	if i < len(prefix) {
		panic(HarnessPanic{fmt.Sprintf("order replay divergence: %d of %d recorded choices consumed", i, len(prefix))})
	}
	return
}

// OrderExplorer enumerates every execution within Bound deviations of sorted order
// (plus the globally reversed order).
type OrderExplorer struct {
	Bound      int
	SiteFilter func(string) bool // restricts deviations (bound-2 passes); nil = all sites
	// Visit is called after each execution with its choice sequence (nil + reverse=true
	// for the reversed execution).
	Run   func()
	Visit func(choices []int, reverse bool, pts []point)

	// MaxExecs caps the executions of this exploration (0 = no cap); Capped reports that
	// the cap was hit (the exploration is then not exhaustive and is reported as such).
	MaxExecs int
	Capped   bool

	Execs     int
	Points    int // choice points met over all executions (transitions)
	MaxPoints int
	Sites     map[string]bool
}

func (e *OrderExplorer) one(prefix []int, reverse bool) ([]int, []point) {
	choices, pts := OrderRun(prefix, reverse, e.SiteFilter, e.Run)
	e.Execs++
	e.Points += len(pts)
	if len(pts) > e.MaxPoints {
		e.MaxPoints = len(pts)
	}
	if e.Sites != nil {
		for _, p := range pts {
			e.Sites[p.site] = true
		}
	}
	if e.Visit != nil {
		e.Visit(choices, reverse, pts)
	}
	return choices, pts
}

// Explore runs sorted order, reversed order and every execution within Bound deviations.
func (e *OrderExplorer) Explore() {
	e.one(nil, true)
	e.explore(nil, 0)
}

func (e *OrderExplorer) explore(prefix []int, dev int) {
	if e.MaxExecs > 0 && e.Execs >= e.MaxExecs {
		e.Capped = true
		return
	}
	choices, pts := e.one(prefix, false)
	if dev >= e.Bound {
		return
	}
	for i := len(prefix); i < len(pts); i++ {
		for alt := 1; alt < pts[i].nalts; alt++ {
			np := append(append(make([]int, 0, i+1), choices[:i]...), alt)
			e.explore(np, dev+1)
		}
	}
}
