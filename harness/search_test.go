package harness

import (
	"encoding/json"
	"fmt"
	"math/rand"
	"os"
	"strconv"
	"testing"

	"github.com/hashicorp/go-argmapper/internal/verifrt"
)

// TestSearchWitness is a development helper (not part of any check): it looks for ONE
// iteration order under which a given scenario violates C05 by drawing choice sequences
// at random, and writes it as a replay file. The replay itself is deterministic; the
// registered checks only ever replay the recorded sequence.
//
//	VERIF_SEARCH=<scenario.json> VERIF_SEARCH_OUT=<replay.json> go test -overlay ... -run TestSearchWitness ./harness
func TestSearchWitness(t *testing.T) {
	in := os.Getenv("VERIF_SEARCH")
	if in == "" {
		t.Skip("development helper")
	}
	b, err := os.ReadFile(in)
	if err != nil {
		t.Fatal(err)
	}
	var s Scenario
	if err := json.Unmarshal(b, &s); err != nil {
		t.Fatal(err)
	}
	rng := rand.New(rand.NewSource(1))
	tries := 2000000
	if v, err := strconv.Atoi(os.Getenv("VERIF_SEARCH_TRIES")); err == nil {
		tries = v
	}
	for try := 0; try < tries; try++ {
		var choices []int
		verifrt.Choose = func(site string, n int) []int {
			if passiveSite(site) {
				return nil
			}
			c := 0
			if rng.Intn(3) == 0 {
				c = rng.Intn(nAlts(n))
			}
			choices = append(choices, c)
			return permFor(n, c)
		}
		o := RunScenario(s)
		verifrt.Choose = nil
		fs := CheckExec(map[string]bool{"C05": true}, s, o)
		if len(fs) > 0 {
			// greedy minimisation: put single choices back to 0 while the violation persists
			choices = trimZeros(choices)
			fails := func(cs []int) (bad bool, pts []point) {
				defer func() {
					if recover() != nil {
						bad = false
					}
				}()
				var o2 Outcome
				_, pts = OrderRun(cs, false, nil, func() { o2 = RunScenario(s) })
				return len(CheckExec(map[string]bool{"C05": true}, s, o2)) > 0, pts
			}
			for changed := true; changed; {
				changed = false
				for i := range choices {
					if choices[i] == 0 {
						continue
					}
					c2 := append([]int{}, choices...)
					c2[i] = 0
					if bad, _ := fails(trimZeros(c2)); bad {
						choices = trimZeros(c2)
						changed = true
						break
					}
				}
			}
			_, pts := fails(choices)
			for i, c := range choices {
				if c != 0 {
					fmt.Printf("deviation at point %d site %s n=%d choice %d\n", i, pts[i].site, pts[i].n, c)
				}
			}
			r := Replay{Property: "C05", Clause: fs[0].Clause, Msg: fs[0].Msg, Engine: "order", Tier: "namedcycle", Scenario: &s, Choices: trimZeros(choices)}
			out, _ := json.MarshalIndent(r, "", " ")
			os.WriteFile(os.Getenv("VERIF_SEARCH_OUT"), out, 0o644)
			fmt.Printf("found after %d tries: %s\nchoices=%v\n", try, fs[0].Msg, trimZeros(choices))
			return
		}
	}
	t.Fatalf("no violating order found in %d random choice sequences", tries)
}
