package harness

import (
	"errors"
	"fmt"
	"regexp"
	"runtime/debug"
	"strings"

	am "github.com/hashicorp/go-argmapper"
	"github.com/hashicorp/go-argmapper/internal/verifrt"
)

// Outcome is everything observed from one execution of a scenario.
type Outcome struct {
	Panic     string // non-empty: a panic (or budget sentinel) reached the harness
	PanicKind string // "panic" | "budget"
	Frame     string // first go-argmapper frame below the panic
	BuildErr  string // NewFunc rejected a synthesised function (not judged by Call oracles)
	Err       error
	Unsat     *am.ErrArgumentUnsatisfied
	ConvFail  string // id of the failing function whose error value was returned (identity)
	OK        bool
	Log       *Log
	TargetRan bool
	Results   []string // provenance of the target's outputs (Call) / converted value (Convert)
	ResultNil bool     // Convert returned a nil value
	World     *World
	Redef     *RedefObs
	Conv      *ConvObs
}

// Class is the coarse outcome class used for stability (C05).
func (o Outcome) Class() string {
	switch {
	case o.Panic != "":
		return "panic"
	case o.BuildErr != "":
		return "builderr"
	case o.OK:
		return "ok"
	case o.Unsat != nil:
		return "unsat"
	case o.ConvFail != "":
		return "fail:" + o.ConvFail
	default:
		return "err"
	}
}

// Key identifies the full observation (replay determinism, distinct outcomes).
func (o Outcome) Key() string {
	e := ""
	if o.Err != nil && o.Unsat == nil && o.ConvFail == "" {
		e = firstLine(o.Err.Error())
	}
	k := fmt.Sprintf("%s|%s|%s|%s|%v|%s", o.Class(), firstLine(o.Panic), e, o.Log.String(), o.Results, unsatKey(o.Unsat))
	if o.Redef != nil {
		k += fmt.Sprintf("|redef:%v|%v|%d|%s", o.Redef.RedefErr != nil, o.Redef.Inputs, o.Redef.RanDuring, o.Redef.DirectKey)
	}
	if o.Conv != nil {
		k += fmt.Sprintf("|conv:%v|%s|%v|%s|%s", o.Conv.ConvErr != nil, o.Conv.ConvTerm, o.Conv.CallErr != nil, o.Conv.CallTerm, invString(o.Conv.CallLog))
	}
	return k
}

func unsatKey(u *am.ErrArgumentUnsatisfied) string {
	if u == nil {
		return ""
	}
	var a []string
	for _, v := range u.Args {
		a = append(a, v.String())
	}
	return strings.Join(a, ";")
}

var hexRe = regexp.MustCompile(`0x[0-9a-f]+`)

func firstLine(s string) string {
	s = hexRe.ReplaceAllString(strings.TrimSpace(s), "0x?")
	if i := strings.IndexByte(s, '\n'); i >= 0 {
		s = s[:i]
	}
	if len(s) > 160 {
		s = s[:160]
	}
	return s
}

// libFrame extracts the first go-argmapper (non-runtime-hook) function below a panic.
func libFrame(stack string) string {
	lines := strings.Split(stack, "\n")
	seenPanic := false
	for _, l := range lines {
		if strings.HasPrefix(l, "panic(") {
			seenPanic = true
			continue
		}
		if !seenPanic {
			continue
		}
		if strings.HasPrefix(l, "github.com/hashicorp/go-argmapper") && !strings.Contains(l, "verifrt") && !strings.Contains(l, "verifharness") {
			if i := strings.LastIndex(l, "("); i > 0 {
				l = l[:i]
			}
			l = strings.TrimPrefix(l, "github.com/hashicorp/go-argmapper")
			return strings.TrimPrefix(strings.TrimPrefix(l, "/internal/"), ".")
		}
	}
	return ""
}

// HarnessPanic wraps a verifrt.HarnessError so drivers can tell it from library panics.
type HarnessPanic struct{ Msg string }

func guard(o *Outcome) {
	if r := recover(); r != nil {
		switch x := r.(type) {
		case verifrt.HarnessError:
			panic(HarnessPanic{x.Msg})
		case HarnessPanic:
			panic(x)
		case verifrt.BudgetExceeded:
			o.Panic = x.Error()
			o.PanicKind = "budget"
			o.Frame = x.Where
		default:
			o.Panic = fmt.Sprint(r)
			o.PanicKind = "panic"
			o.Frame = libFrame(string(debug.Stack()))
		}
	}
}

var errGen = errors.New("generator failed")

// malformedArg returns the malformed option of the given kind.
func malformedArg(kind string) am.Arg {
	switch kind {
	case "nilopt":
		return nil
	case "nilnamed":
		return am.Named("a", nil)
	case "nilnamedsub":
		return am.NamedSubtype("a", nil, "x")
	case "niltyped":
		return am.Typed(nil)
	case "niltypedsub":
		return am.TypedSubtype(nil, "x")
	case "nonfunc":
		return am.Converter(42)
	case "nonfunc-struct":
		return am.Converter(struct{}{})
	case "nilconv":
		return am.Converter(nil)
	case "nilfunc":
		return am.ConverterFunc(nil)
	case "gennil":
		return am.ConverterGen(func(am.Value) (*am.Func, error) { return nil, nil })
	case "generr":
		return am.ConverterGen(func(am.Value) (*am.Func, error) { return nil, errGen })
	}
	panic("harness: unknown malformed kind " + kind)
}

// MalformedKinds lists the malformed options of C06, with whether the library must
// report an error (true) or may also ignore the option (false).
var MalformedKinds = []string{"nilopt", "nilnamed", "nilnamedsub", "niltyped", "niltypedsub", "nonfunc", "nonfunc-struct", "nilconv", "nilfunc", "gennil", "generr"}

// buildArgs synthesises every function of the scenario and assembles the option list.
func buildArgs(s Scenario, w *World) (target *am.Func, args []am.Arg, buildErr string) {
	if s.Mode != "convert" {
		tf, err := w.Build(s.Target)
		if err != nil {
			return nil, nil, "target: " + err.Error()
		}
		target = tf
	}
	for _, in := range s.Inputs {
		args = append(args, inputArg(in))
	}
	for _, c := range s.Convs {
		c := c
		cf, err := w.Build(c)
		if err != nil {
			return nil, nil, "conv " + c.ID + ": " + err.Error()
		}
		if c.Gen {
			args = append(args, am.ConverterGen(func(v am.Value) (*am.Func, error) {
				if len(c.In) > 0 && v.Type == typeOf(c.In[0].T) {
					return cf, nil
				}
				return nil, nil
			}))
		} else {
			args = append(args, am.ConverterFunc(cf))
		}
	}
	if s.ArgOrder != nil {
		if len(s.ArgOrder) != len(args) {
			panic(HarnessPanic{"argorder length mismatch"})
		}
		p := make([]am.Arg, len(args))
		for i, j := range s.ArgOrder {
			p[i] = args[j]
		}
		args = p
	}
	if s.Malformed != "" {
		pos := s.MalPos
		if pos > len(args) {
			pos = len(args)
		}
		na := append([]am.Arg{}, args[:pos]...)
		na = append(na, malformedArg(s.Malformed))
		na = append(na, args[pos:]...)
		args = na
	}
	return
}

func (o *Outcome) classifyErr() {
	if o.Err == nil {
		o.OK = true
		return
	}
	for id, e := range o.World.Errs {
		if e == o.Err {
			o.ConvFail = id
		}
	}
	var ua *am.ErrArgumentUnsatisfied
	if o.ConvFail == "" && errors.As(o.Err, &ua) {
		o.Unsat = ua
	}
}

// RunScenario executes a Call or Convert scenario once under the installed chooser.
func RunScenario(s Scenario) (o Outcome) {
	w := NewWorld()
	w.BareUnsat = s.BareUnsat
	o.World = w
	o.Log = w.Log
	verifrt.ResetBudget()
	defer func() {
		for _, inv := range w.Log.Inv {
			if inv.Func == s.Target.ID {
				o.TargetRan = true
			}
		}
	}()
	defer guard(&o)
	target, args, berr := buildArgs(s, w)
	if berr != "" {
		o.BuildErr = berr
		return
	}
	switch s.Mode {
	case "convert":
		v, err := am.Convert(typeOf(s.Target.In[0].T), args...)
		o.Err = err
		o.classifyErr()
		if v == nil {
			o.ResultNil = true
		} else {
			o.Results = []string{provOfIface(v)}
		}
	default:
		r := target.Call(args...)
		o.Err = r.Err()
		o.classifyErr()
		if o.OK {
			for i := 0; i < r.Len(); i++ {
				o.Results = append(o.Results, provOfIface(r.Out(i)))
			}
		}
	}
	return
}
