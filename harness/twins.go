package harness

import (
	"encoding/json"
	"fmt"
	"reflect"

	am "github.com/hashicorp/go-argmapper"
	"github.com/hashicorp/go-argmapper/internal/verifrt"
	dup "github.com/hashicorp/go-argmapper/verifharness/harness/dup"
)

// convert-twins (C10): sequences of Convert calls, within one process, to distinct
// target types whose printed names coincide (harness.T0 declared in two packages).
// Each Convert must behave as if it were the only one: anything remembered between
// calls under a printed type name would cross the two types.

type twinStep struct {
	Dup  bool `json:"dup"`  // target is dup.T0 instead of harness.T0
	Conv bool `json:"conv"` // supplied: a T1 value and a converter T1->T0 (of the same package) instead of a T0 value
}

func (t twinStep) String() string {
	pkg, how := "harness", "Typed(T0)"
	if t.Dup {
		pkg = "dup"
	}
	if t.Conv {
		how = "Typed(T1)+Converter(T1->T0)"
	}
	return fmt.Sprintf("Convert(%s.T0; %s)", pkg, how)
}

func runTwinStep(i int, t twinStep) (string, string) {
	term := fmt.Sprintf("v%d", i)
	var target reflect.Type
	var args []am.Arg
	want := term
	switch {
	case !t.Dup && !t.Conv:
		target, args = reflect.TypeOf(T0{}), []am.Arg{am.Typed(T0{term})}
	case !t.Dup && t.Conv:
		target, args = reflect.TypeOf(T0{}), []am.Arg{am.Typed(T1{term}), am.Converter(func(x T1) T0 { return T0{"c(" + x.P + ")"} })}
		want = "c(" + term + ")"
	case t.Dup && !t.Conv:
		target, args = reflect.TypeOf(dup.T0{}), []am.Arg{am.Typed(dup.T0{P: term})}
	default:
		target, args = reflect.TypeOf(dup.T0{}), []am.Arg{am.Typed(dup.T1{P: term}), am.Converter(func(x dup.T1) dup.T0 { return dup.T0{P: "c(" + x.P + ")"} })}
		want = "c(" + term + ")"
	}
	v, err := am.Convert(target, args...)
	if err != nil {
		return "error: " + firstLine(err.Error()), "ok " + want + " as " + target.PkgPath()
	}
	if v == nil {
		return "nil value without error", "ok " + want
	}
	return fmt.Sprintf("ok %s as %s", provOfIface(v), reflect.TypeOf(v).PkgPath()), "ok " + want + " as " + target.PkgPath()
}

func checkTwins(steps []twinStep) (fs []Finding) {
	defer func() {
		if r := recover(); r != nil {
			switch x := r.(type) {
			case verifrt.HarnessError:
				panic(HarnessPanic{x.Msg})
			case HarnessPanic:
				panic(x)
			}
			fs = append(fs, Finding{"C10", "twins-panic", fmt.Sprintf("panic: %s", firstLine(fmt.Sprint(r)))})
		}
	}()
	verifrt.ResetBudget()
	for i, st := range steps {
		got, want := runTwinStep(i, st)
		if got != want {
			fs = append(fs, Finding{"C10", "twins", fmt.Sprintf("step %d %s observed %q, want %q (as when it is the only Convert in the process)", i, st, got, want)})
			return
		}
	}
	return
}

func init() {
	CaseTiers["convert-twins"] = &CaseTier{Name: "convert-twins",
		Doc: "all sequences of <=3 Convert calls to harness.T0 / dup.T0 (distinct types with the same printed name), each with a direct value or through a converter",
		Run: func(st Step, pick func(int) bool, stats *Stats, emit func(Replay)) {
			menu := []twinStep{{false, false}, {true, false}, {false, true}, {true, true}}
			idx := -1
			var rec func(cur []twinStep)
			rec = func(cur []twinStep) {
				if len(cur) > 0 {
					idx++
					if pick(idx) {
						steps := append([]twinStep{}, cur...)
						stats.Scenarios++
						stats.Premise++
						if len(steps) > 1 {
							stats.Nontrivial++
						}
						noteSample(func() string { return fmt.Sprint(steps) })
						var fsCur []Finding
						seen := map[string]bool{}
						e := &OrderExplorer{Bound: st.Bound, Run: func() { fsCur = checkTwins(steps) }, Visit: func(choices []int, reverse bool, pts []point) {
							for _, f := range fsCur {
								if seen[f.Clause] {
									continue
								}
								seen[f.Clause] = true
								b, _ := json.Marshal(steps)
								emit(Replay{Property: "C10", Clause: f.Clause, Msg: f.Msg, Engine: "convert-twins", Tier: st.Tier, Extra: b, Choices: trimZeros(choices), Reverse: reverse, Observed: f.Msg})
							}
						}}
						e.Explore()
						stats.Execs += e.Execs
						stats.Points += e.Points
					}
				}
				if len(cur) == 3 {
					return
				}
				for _, m := range menu {
					rec(append(cur, m))
				}
			}
			rec(nil)
		},
		Replay: func(r Replay) []Finding {
			var steps []twinStep
			if err := json.Unmarshal(r.Extra, &steps); err != nil {
				panic(HarnessPanic{"bad twins case: " + err.Error()})
			}
			var fs []Finding
			OrderRun(r.Choices, r.Reverse, nil, func() { fs = checkTwins(steps) })
			fmt.Printf("sequence: %v\n", steps)
			return fs
		},
	}
}
