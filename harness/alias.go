package harness

import (
	"encoding/json"
	"fmt"
	"strings"

	am "github.com/hashicorp/go-argmapper"
	"github.com/hashicorp/go-argmapper/internal/verifrt"
)

// alias tier (C08, C16): sequential histories in which the caller's option lists share
// a backing array with spare capacity — the usual `common := ...; ext := append(common,
// x)` idiom. What a call observes must depend only on the options given to it (and the
// defaults of its function): the same history executed with every list cloned to an
// exact-capacity copy is the reference.

type aliasOp struct {
	name  string
	needs int // index of an op that must have run before (-1: none)
	redef bool
}

var aliasOps = []aliasOp{
	{"f.Call(Named b=fb)", -1, false},         // f has defaults `common` (a)
	{"g.Call()", -1, false},                   // g has defaults `ext` (a, b)
	{"r1 := f.Redefine(common...)", -1, true}, // r1 still needs b
	{"r1.Call(Named b=rb)", 2, true},
	{"r2 := h.Redefine(ext...)", -1, true}, // h has no defaults; r2 needs nothing
	{"r2.Call()", 4, true},
	{"h.Call(ext...)", -1, false},
	{"h.Call(common..., Named b=hb) [own copy]", -1, false},
}

type aliasCase struct {
	Ops []int `json:"ops"`
}

func (c aliasCase) String() string {
	var n []string
	for _, o := range c.Ops {
		n = append(n, aliasOps[o].name)
	}
	return "[" + strings.Join(n, "; ") + "]"
}

func runAlias(c aliasCase, fresh bool) (obs []string, pan string) {
	defer func() {
		if r := recover(); r != nil {
			switch x := r.(type) {
			case verifrt.HarnessError:
				panic(HarnessPanic{x.Msg})
			case HarnessPanic:
				panic(x)
			}
			pan = firstLine(fmt.Sprint(r))
		}
	}()
	verifrt.ResetBudget()
	w := NewWorld()
	// use(x): what is handed to the library — the caller's slice itself, or (reference
	// run) an exact-capacity copy of it
	use := func(x []am.Arg) []am.Arg {
		if fresh {
			return append([]am.Arg(nil), x...)
		}
		return x
	}
	common := make([]am.Arg, 0, 8)
	common = append(common, am.Named("a", T0{"ca"}))
	ext := append(common, am.Named("b", T1{"eb"})) // shares common's backing array
	params := []Label{{"a", 0, ""}, {"b", 1, ""}}
	mk := func(id string, defaults []am.Arg) *am.Func {
		f, err := am.NewFunc(w.rawFunc(FuncSpec{ID: id, In: params, InForm: FormStruct, Out: []Label{{"", 2, ""}}, OutForm: FormPositional}), defaults...)
		if err != nil {
			panic(HarnessPanic{"alias: " + err.Error()})
		}
		return f
	}
	f := mk("f", use(common))
	g := mk("g", use(ext))
	h := mk("h", nil)
	var r1, r2 *am.Func
	res := func(name string, r am.Result) {
		e := name + ": " + errKey(w, r.Err())
		if r.Err() == nil {
			for i := 0; i < r.Len(); i++ {
				e += " " + provOfIface(r.Out(i))
			}
		}
		obs = append(obs, e)
	}
	for _, oi := range c.Ops {
		op := aliasOps[oi]
		switch oi {
		case 0:
			res(op.name, f.Call(am.Named("b", T1{"fb"})))
		case 1:
			res(op.name, g.Call())
		case 2:
			var err error
			r1, err = f.Redefine(use(common)...)
			obs = append(obs, fmt.Sprintf("%s: err=%v", op.name, err != nil))
		case 3:
			if r1 != nil {
				res(op.name, r1.Call(am.Named("b", T1{"rb"})))
			}
		case 4:
			var err error
			r2, err = h.Redefine(use(ext)...)
			obs = append(obs, fmt.Sprintf("%s: err=%v", op.name, err != nil))
		case 5:
			if r2 != nil {
				res(op.name, r2.Call())
			}
		case 6:
			res(op.name, h.Call(use(ext)...))
		case 7:
			own := append(append([]am.Arg(nil), common...), am.Named("b", T1{"hb"}))
			res(op.name, h.Call(own...))
		}
	}
	return
}

func checkAlias(prop string, c aliasCase) (fs []Finding) {
	shared, pan := runAlias(c, false)
	var ref []string
	var pan2 string
	WithPureChooser(func() { ref, pan2 = runAlias(c, true) })
	if pan != "" && pan2 == "" {
		return []Finding{{prop, "alias-panic", fmt.Sprintf("history %s panicked when option lists share storage (%s), not with separate copies", c, pan)}}
	}
	for i := range shared {
		if i < len(ref) && shared[i] != ref[i] {
			return []Finding{{prop, "alias", fmt.Sprintf("history %s: step %d observes %q when the caller's option lists share a backing array, %q when every list is a separate copy", c, i, shared[i], ref[i])}}
		}
	}
	return nil
}

func init() {
	run := func(prop string) func(st Step, pick func(int) bool, stats *Stats, emit func(Replay)) {
		return func(st Step, pick func(int) bool, stats *Stats, emit func(Replay)) {
			idx := -1
			var rec func(cur []int)
			rec = func(cur []int) {
				if len(cur) > 0 {
					hasRedef := false
					for _, o := range cur {
						hasRedef = hasRedef || aliasOps[o].redef
					}
					// histories with Redefine steps belong to C08, the others to C16
					if (prop == "C08") == hasRedef {
						idx++
						if pick(idx) {
							c := aliasCase{Ops: append([]int{}, cur...)}
							stats.Scenarios++
							stats.Premise++
							if len(cur) >= 2 {
								stats.Nontrivial++
							}
							noteSample(func() string { return c.String() })
							var fsCur []Finding
							seen := map[string]bool{}
							e := &OrderExplorer{Bound: 0, Run: func() { fsCur = checkAlias(prop, c) }, Visit: func(choices []int, reverse bool, pts []point) {
								for _, f := range fsCur {
									if seen[f.Clause] {
										continue
									}
									seen[f.Clause] = true
									b, _ := json.Marshal(c)
									emit(Replay{Property: prop, Clause: f.Clause, Msg: f.Msg, Engine: "alias-" + prop, Tier: st.Tier, Extra: b, Choices: trimZeros(choices), Reverse: reverse, Observed: f.Msg})
								}
							}}
							e.Explore()
							stats.Execs += e.Execs
							stats.Points += e.Points
						}
					}
				}
				if len(cur) == st.Size {
					return
				}
				for o := range aliasOps {
					ok := aliasOps[o].needs < 0
					for _, p := range cur {
						if p == aliasOps[o].needs {
							ok = true
						}
					}
					if ok {
						rec(append(cur, o))
					}
				}
			}
			rec(nil)
		}
	}
	replay := func(prop string) func(r Replay) []Finding {
		return func(r Replay) []Finding {
			var c aliasCase
			if err := json.Unmarshal(r.Extra, &c); err != nil {
				panic(HarnessPanic{"bad alias case: " + err.Error()})
			}
			var fs []Finding
			OrderRun(r.Choices, r.Reverse, nil, func() { fs = checkAlias(prop, c) })
			fmt.Printf("history: %s\n", c)
			return fs
		}
	}
	doc := "all histories of <= 4 operations (calls on functions with default options, Redefine, calls of redefined functions) in which the caller's option lists share one backing array with spare capacity; reference: the same history with every list cloned"
	CaseTiers["alias-C08"] = &CaseTier{Name: "alias-C08", Doc: doc, Run: run("C08"), Replay: replay("C08")}
	CaseTiers["alias-C16"] = &CaseTier{Name: "alias-C16", Doc: doc, Run: run("C16"), Replay: replay("C16")}
}
