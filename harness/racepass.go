package harness

import (
	"encoding/json"
	"fmt"
	"os"
	"os/exec"
	"path/filepath"
	"strconv"
	"strings"
	"sync"
)

// E4b: free-running race pass. The same ConcCase bodies run on the PLAIN build of the
// library (no instrumentation: a cooperative hand-off is a happens-before edge and
// blinds the detector) compiled with -race, with real goroutines released together.
// It is exhaustive over the case alphabet, not over schedules: Go's detector flags
// conflicting accesses unordered by happens-before whatever the timing. This covers
// what the hooks cannot name: writes through reflect, slice backing arrays, map
// internals. The harness bodies keep no shared state in this mode (World.Quiet).

func raceCases(prop, mode string, f func(ConcCase)) {
	subs := []string{"plain", "once"}
	if prop == "C11" {
		subs = []string{"once"}
	}
	sizes := [][2]int{{2, 1}}
	if mode == "thorough" {
		sizes = [][2]int{{2, 1}, {2, 2}, {3, 1}}
	}
	for _, sz := range sizes {
		for _, sub := range subs {
			enumConc(sub, sz[0], sz[1], f)
		}
	}
}

// RacePassWorker runs inside the -race binary.
func RacePassWorker(prop, mode string, k, K, start int, curFile string) {
	Init()
	allPerms(2)
	allPerms(3)
	cf, _ := os.OpenFile(curFile, os.O_CREATE|os.O_RDWR|os.O_TRUNC, 0644)
	defer cf.Close()
	idx := -1
	n := 0
	raceCases(prop, mode, func(c ConcCase) {
		idx++
		if idx%K != k || idx < start {
			return
		}
		cf.WriteAt([]byte(fmt.Sprintf("%-12d", idx)), 0)
		n++
		for rep := 0; rep < 4; rep++ {
			cw := newConcWorld(c, true, func() int { return -1 })
			startCh := make(chan struct{})
			var wg sync.WaitGroup
			for t := range c.Threads {
				t := t
				wg.Add(1)
				go func() {
					defer wg.Done()
					<-startCh
					for j, oi := range c.Threads[t] {
						cw.perform(t, j, oi)
					}
				}()
			}
			close(startCh)
			wg.Wait()
			for t := range cw.outs {
				for _, e := range cw.outs[t] {
					if strings.Contains(e, "PANIC") {
						fmt.Printf("PANIC\t%d\t%s\n", idx, e)
					}
				}
			}
		}
	})
	fmt.Printf("DONE\t%d\n", n)
}

// RacePass drives the -race binary (parent side) and returns findings + cases run.
func RacePass(prop, mode, tmp string) (findings []Replay, cases int, err error) {
	bin := os.Getenv("VERIF_RACE_BIN")
	if bin == "" {
		return nil, 0, fmt.Errorf("VERIF_RACE_BIN not set (run through run.sh)")
	}
	K := 8
	var mu sync.Mutex
	var wg sync.WaitGroup
	for k := 0; k < K; k++ {
		wg.Add(1)
		go func(k int) {
			defer wg.Done()
			start := 0
			for {
				curf := filepath.Join(tmp, fmt.Sprintf("race.%s.%d", prop, k))
				cmd := exec.Command(bin, "raceworker", prop, mode, strconv.Itoa(k), strconv.Itoa(K), strconv.Itoa(start), curf)
				cmd.Env = append(os.Environ(), "GORACE=halt_on_error=1 exitcode=66", "GOMAXPROCS=4")
				var stderr strings.Builder
				cmd.Stderr = &stderr
				out, rerr := cmd.Output()
				done := false
				mu.Lock()
				for _, line := range strings.Split(string(out), "\n") {
					f := strings.Split(line, "\t")
					switch f[0] {
					case "DONE":
						n, _ := strconv.Atoi(f[1])
						cases += n
						done = true
					case "PANIC":
						i, _ := strconv.Atoi(f[1])
						findings = append(findings, raceFinding(prop, mode, i, "race-pass-panic", f[2]))
					}
				}
				mu.Unlock()
				if done && rerr == nil {
					return
				}
				b, e2 := os.ReadFile(curf)
				if e2 != nil {
					mu.Lock()
					err = fmt.Errorf("race worker died without announcing a case: %v: %s", rerr, lastLines(stderr.String(), 5))
					mu.Unlock()
					return
				}
				idx, _ := strconv.Atoi(strings.TrimSpace(string(b)))
				clause := "race-detector"
				if ee, ok := rerr.(*exec.ExitError); !ok || ee.ExitCode() != 66 {
					clause = "race-pass-crash"
				}
				mu.Lock()
				cases += idx/K - start/K
				findings = append(findings, raceFinding(prop, mode, idx, clause, raceSummary(stderr.String())))
				mu.Unlock()
				start = idx + 1
			}
		}(k)
	}
	wg.Wait()
	return
}

func raceSummary(report string) string {
	var keep []string
	for _, l := range strings.Split(report, "\n") {
		t := strings.TrimSpace(l)
		if strings.HasPrefix(t, "WARNING: DATA RACE") || strings.HasPrefix(t, "Write at") || strings.HasPrefix(t, "Read at") || strings.HasPrefix(t, "Previous") ||
			(strings.HasPrefix(t, "github.com/hashicorp/go-argmapper") && !strings.Contains(t, "verifharness")) || strings.HasPrefix(t, "fatal error") || strings.HasPrefix(t, "panic:") {
			keep = append(keep, hexRe.ReplaceAllString(t, "0x?"))
		}
		if len(keep) >= 8 {
			break
		}
	}
	return strings.Join(keep, " | ")
}

func raceFinding(prop, mode string, idx int, clause, msg string) Replay {
	var c *ConcCase
	i := -1
	raceCases(prop, mode, func(x ConcCase) {
		i++
		if i == idx {
			cc := x
			c = &cc
		}
	})
	b, _ := json.Marshal(map[string]interface{}{"mode": mode, "index": idx, "case": c})
	// the class of a race is the first library frame
	cl := clause
	for _, part := range strings.Split(msg, " | ") {
		if strings.HasPrefix(part, "github.com/hashicorp/go-argmapper") {
			fn := strings.TrimPrefix(part, "github.com/hashicorp/go-argmapper")
			if j := strings.Index(fn, "("); j > 0 && !strings.HasPrefix(fn, ".(") {
				fn = fn[:j]
			}
			cl += ":" + strings.TrimPrefix(fn, ".")
			break
		}
	}
	return Replay{Property: prop, Clause: cl, Msg: msg, Engine: "race", Extra: b, Observed: fmt.Sprint(c)}
}

func init() {
	CustomReplays["race"] = func(r Replay, path string) int {
		bin := os.Getenv("VERIF_RACE_BIN")
		if bin == "" {
			fmt.Fprintln(os.Stderr, "VERIF_RACE_BIN not set (run through run.sh replay)")
			return 2
		}
		var x struct {
			Mode  string `json:"mode"`
			Index int    `json:"index"`
		}
		json.Unmarshal(r.Extra, &x)
		tmp, _ := os.MkdirTemp("", "vrace-")
		defer os.RemoveAll(tmp)
		// run only this case: shard K = huge so that only idx matches
		for rep := 0; rep < 5; rep++ {
			cmd := exec.Command(bin, "raceworker", r.Property, x.Mode, strconv.Itoa(x.Index), "1000000", strconv.Itoa(x.Index), filepath.Join(tmp, "cur"))
			cmd.Env = append(os.Environ(), "GORACE=halt_on_error=1 exitcode=66", "GOMAXPROCS=4")
			var stderr strings.Builder
			cmd.Stderr = &stderr
			_, err := cmd.Output()
			if err != nil {
				fmt.Printf("case %d: %s\n%s\n", x.Index, r.Observed, raceSummary(stderr.String()))
				fmt.Printf("VIOLATION property=%s replay=%s\n", r.Property, path)
				return 1
			}
		}
		fmt.Println("no violation reproduced (5 free-running repetitions)")
		return 0
	}
}
