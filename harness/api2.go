package harness

import (
	"fmt"
	"reflect"
	"strings"

	am "github.com/hashicorp/go-argmapper"
)

// ------------------------------------------------------------------ C15

type vsItem struct {
	Name string
	T    int
	Sub  string
}

func (v vsItem) String() string { return Label{v.Name, v.T, v.Sub}.String() }

func enumValueLists(maxLen int, names []string, f func([]vsItem)) {
	enumValueListsX(maxLen, names, false, f)
}

// enumValueListsX: with sameTypeSubtypes, two type-only values may share a type as long
// as their subtypes differ (C15: "by type and subtype when no other value shares both").
func enumValueListsX(maxLen int, names []string, sameTypeSubtypes bool, f func([]vsItem)) {
	var menu []vsItem
	for _, n := range names {
		for t := 0; t < 3; t++ {
			for _, s := range []string{"", "x"} {
				menu = append(menu, vsItem{n, t, s})
			}
		}
	}
	var rec func(cur []vsItem)
	rec = func(cur []vsItem) {
		f(cur)
		if len(cur) == maxLen {
			return
		}
		for _, m := range menu {
			ok := true
			for _, c := range cur {
				if m.Name != "" && strings.EqualFold(m.Name, c.Name) {
					ok = false
				}
				if m.Name == "" && c.Name == "" && m.T == c.T && (!sameTypeSubtypes || m.Sub == c.Sub) {
					ok = false
				}
			}
			if ok {
				rec(append(append([]vsItem{}, cur...), m))
			}
		}
	}
	rec(nil)
}

func toValues(items []vsItem) []am.Value {
	var vs []am.Value
	for _, it := range items {
		vs = append(vs, am.Value{Name: it.Name, Type: typeOf(it.T), Subtype: it.Sub})
	}
	return vs
}

func lookup(set *am.ValueSet, it vsItem) *am.Value {
	if it.Name != "" {
		return set.Named(strings.ToLower(it.Name))
	}
	// a type-only entry is reached by type+subtype, or by type alone; an entry that
	// shares both with a named entry *and* its type with another type-only entry cannot
	// be addressed through the accessors at all (nil: its round trip is not judged)
	for _, p := range []*am.Value{set.TypedSubtype(typeOf(it.T), it.Sub), set.Typed(typeOf(it.T))} {
		if p != nil && p.Name == "" && p.Subtype == it.Sub {
			return p
		}
	}
	return nil
}

func init() {
	apiEnums["C15"] = func(mode string, emit func(apiCase)) {
		maxLen := 2
		if mode == "thorough" {
			maxLen = 3
		}
		enumValueListsX(maxLen, []string{"a", "B", "c", ""}, true, func(items []vsItem) {
			items = append([]vsItem{}, items...)
			var ds []string
			for _, it := range items {
				ds = append(ds, it.String())
			}
			desc := "NewValueSet[" + strings.Join(ds, " ") + "]"
			emit(apiCase{Desc: desc, Run: func() (fs []Finding) {
				add := func(clause, m string, a ...interface{}) {
					fs = append(fs, Finding{"C15", clause, desc + ": " + fmt.Sprintf(m, a...)})
				}
				set, err := am.NewValueSet(toValues(items))
				if err != nil {
					add("newvalueset", "NewValueSet: %v", err)
					return
				}
				var want []am.Value
				for _, it := range items {
					want = append(want, am.Value{Name: strings.ToLower(it.Name), Type: typeOf(it.T), Subtype: it.Sub})
				}
				if want == nil {
					want = []am.Value{}
				}
				checkSet("set", set, want, add)
				if len(fs) > 0 {
					return
				}
				// assign a term to every entry through the pointers the accessors return
				assigned := map[int]bool{}
				for i, it := range items {
					v := lookup(set, it)
					if v == nil {
						shares := 0
						for _, o := range items {
							if o.T == it.T && (o.Name == "" || o.Sub == it.Sub) {
								shares++
							}
						}
						if shares <= 1 {
							add("lookup", "entry %s not found", it)
							return
						}
						continue
					}
					assigned[i] = true
					v.Value = mkVal(it.T, fmt.Sprintf("v%d", i))
				}
				// Signature / SignatureValues / FromSignature round trip into a fresh set
				sig := set.Signature()
				vals := set.SignatureValues()
				if len(sig) != len(vals) {
					add("signature", "Signature has %d types, SignatureValues %d values", len(sig), len(vals))
					return
				}
				for i := range sig {
					if vals[i].Type() != sig[i] {
						add("signature", "SignatureValues[%d] has type %v, Signature says %v", i, vals[i].Type(), sig[i])
					}
				}
				fresh, _ := am.NewValueSet(toValues(items))
				for _, v := range fresh.Values() {
					if v.Value.IsValid() {
						add("fresh-holds-values", "a value set just built from the same list already holds %q for %s", provOf(v.Value), v.String())
					}
				}
				if len(items) > 0 {
					if err := fresh.FromSignature(vals); err != nil {
						add("fromsignature", "FromSignature: %v", err)
						return
					}
					for i, it := range items {
						if !assigned[i] {
							continue
						}
						v := lookup(fresh, it)
						if v == nil || provOf(v.Value) != fmt.Sprintf("v%d", i) {
							add("roundtrip", "after FromSignature(SignatureValues()) entry %s holds %q, want v%d", it, provOfV(v), i)
						}
					}
					// Values() reports the values (copies) including what they hold
					for i, v := range set.Values() {
						if assigned[i] && provOf(v.Value) != fmt.Sprintf("v%d", i) {
							add("values-copy", "Values()[%d] holds %q", i, provOf(v.Value))
						}
					}
				}
				return
			}})
		})
		// BuildFunc: input/output list pairs, sequences of calls with different terms,
		// as target and as converter, compared with an ordinary function of that signature.
		maxIO := 1
		if mode == "thorough" {
			maxIO = 2
		}
		var lists [][]vsItem
		enumValueLists(maxIO, []string{"a", ""}, func(items []vsItem) { lists = append(lists, append([]vsItem{}, items...)) })
		toLabels := func(items []vsItem) []Label {
			var r []Label
			for _, it := range items {
				r = append(r, Label{strings.ToLower(it.Name), it.T, it.Sub})
			}
			return r
		}
		emit(apiCase{Desc: "value set with an interface-typed entry holding the zero value of a concrete type", Run: func() (fs []Finding) {
			for _, named := range []bool{false, true} {
				v := am.Value{Type: ifaceType}
				if named {
					v.Name = "lvl"
				}
				set, err := am.NewValueSet([]am.Value{v, {Name: "other", Type: typeOf(0)}})
				if err != nil {
					return []Finding{{"C15", "newvalueset", err.Error()}}
				}
				get := func(s *am.ValueSet) *am.Value {
					if named {
						return s.Named("lvl")
					}
					return s.Typed(ifaceType)
				}
				// the zero value of a concrete type, to be delivered through an interface-typed entry
				get(set).Value = reflect.ValueOf(T3{})
				set.Named("other").Value = mkVal(0, "o")
				fresh, _ := am.NewValueSet([]am.Value{v, {Name: "other", Type: typeOf(0)}})
				fresh.FromSignature(set.SignatureValues())
				got := get(fresh).Value
				if !got.IsValid() || got.IsNil() {
					fs = append(fs, Finding{"C15", "roundtrip-zero", fmt.Sprintf("named=%v: an interface-typed entry holding T3{} reads back as nil after FromSignature(SignatureValues())", named)})
				} else if _, ok := got.Interface().(T3); !ok {
					fs = append(fs, Finding{"C15", "roundtrip-zero", fmt.Sprintf("named=%v: entry reads back as %v", named, got)})
				}
			}
			return
		}})
		sharedInputCases(lists, toLabels, emit)
		for _, in := range lists {
			for _, out := range lists {
				for _, fails := range [][]bool{{false, false, false}, {false, true, false}, {true, false, false}} {
					in, out, fails := in, out, fails
					desc := fmt.Sprintf("BuildFunc in=[%s] out=[%s] failing-calls=%v", labelsString(toLabels(in)), labelsString(toLabels(out)), fails)
					emit(apiCase{Desc: desc, Run: func() (fs []Finding) {
						add := func(clause, m string, a ...interface{}) {
							fs = append(fs, Finding{"C15", clause, desc + ": " + fmt.Sprintf(m, a...)})
						}
						// run the same 3-call history with a built function and with an ordinary one
						run := func(built bool) (logs []string) {
							w := NewWorld()
							spec := FuncSpec{ID: "f", In: toLabels(in), Out: toLabels(out), Built: built, HasErr: true}
							cur := 0
							w.Tag = nil
							// the failing flag varies per call: rebuild the spec's Fails through a switch
							var f *am.Func
							var err error
							failing := false
							if built {
								f, err = w.buildBuiltDyn(spec, func() bool { return failing })
							} else {
								f, err = am.NewFunc(w.rawFuncDyn(spec, func() bool { return failing }))
							}
							if err != nil {
								return []string{"construct: " + err.Error()}
							}
							consumer := FuncSpec{ID: "g", In: toLabels(out), InForm: FormStruct, Out: []Label{{"", 2, ""}}, OutForm: FormPositional}
							g, gerr := w.Build(consumer)
							for call := 0; call < 3; call++ {
								cur = call
								failing = fails[call]
								var args []am.Arg
								for i, l := range toLabels(in) {
									args = append(args, inputArg(Input{L: l, V: fmt.Sprintf("c%d_in%d", cur, i)}))
								}
								mark := len(w.Log.Inv)
								// (a) as target
								r := f.Call(args...)
								entry := fmt.Sprintf("call%d target: err=%s", call, errKey(w, r.Err()))
								if r.Err() == nil {
									vs, _ := am.NewValueSet(toValues(out))
									if len(out) > 0 {
										if e := vs.FromResult(r); e != nil {
											entry += " fromresult-error:" + e.Error()
										}
										for _, v := range vs.Values() {
											entry += " " + provOf(v.Value)
										}
									}
								}
								// (b) as converter feeding a plain consumer
								if gerr == nil && len(out) > 0 {
									r2 := g.Call(append(append([]am.Arg{}, args...), am.ConverterFunc(f))...)
									entry += fmt.Sprintf(" | as-converter: err=%s", errKey(w, r2.Err()))
								}
								entry += " | log: " + invString(w.Log.Inv[mark:])
								logs = append(logs, entry)
							}
							return
						}
						b, o := run(true), run(false)
						for i := range b {
							if i < len(o) && b[i] != o[i] {
								add("built-differs", "built function observes %q, an ordinary function of the same signature %q", b[i], o[i])
							}
						}
						return
					}})
				}
			}
		}
	}
}

// sharedInputCases: a function built over the *input set of another, ordinary function*
// (BuildFunc(orig.Input(), ...)): a wrapper. The wrapper stores every call's arguments in
// that set; the wrapped function must keep receiving exactly what its own calls supply.
func sharedInputCases(lists [][]vsItem, toLabels func([]vsItem) []Label, emit func(apiCase)) {
	for _, in := range lists {
		if len(in) == 0 {
			continue
		}
		// entries of one type (a named and a type-only one) may legitimately be fed by the
		// same supplied value; the expectation below needs a forced binding
		seenT := map[int]bool{}
		amb := false
		for _, it := range in {
			amb = amb || seenT[it.T]
			seenT[it.T] = true
		}
		if amb {
			continue
		}
		in := in
		for _, asConv := range []bool{false, true} {
			asConv := asConv
			desc := fmt.Sprintf("BuildFunc over orig.Input() in=[%s]; history wrapper, orig, wrapper, orig (orig as converter=%v)", labelsString(toLabels(in)), asConv)
			emit(apiCase{Desc: desc, Run: func() (fs []Finding) {
				add := func(clause, m string, a ...interface{}) {
					fs = append(fs, Finding{"C15", clause, desc + ": " + fmt.Sprintf(m, a...)})
				}
				w := NewWorld()
				ospec := FuncSpec{ID: "orig", In: toLabels(in), InForm: FormStruct, Out: []Label{{"", 4, ""}}, OutForm: FormPositional}
				orig, err := w.Build(ospec)
				if err != nil {
					add("construct", "orig: %v", err)
					return
				}
				outSet, _ := am.NewValueSet([]am.Value{{Type: typeOf(3)}})
				var seen []string
				wrapper, err := am.BuildFunc(orig.Input(), outSet, func(i, o *am.ValueSet) error {
					var ts []string
					for _, v := range i.Values() {
						ts = append(ts, provOf(v.Value))
					}
					seen = append(seen, strings.Join(ts, ","))
					o.Typed(typeOf(3)).Value = mkVal(3, "w("+strings.Join(ts, ",")+")")
					return nil
				})
				if err != nil {
					add("construct", "BuildFunc(orig.Input()): %v", err)
					return
				}
				consumer, _ := w.Build(FuncSpec{ID: "consumer", In: []Label{{"", 4, ""}}, InForm: FormPositional, OutForm: FormPositional})
				args := func(call int) (r []am.Arg, terms []string) {
					for i, l := range toLabels(in) {
						t := fmt.Sprintf("h%d_%d", call, i)
						terms = append(terms, t)
						r = append(r, inputArg(Input{L: l, V: t}))
					}
					return
				}
				for call := 0; call < 4; call++ {
					a, terms := args(call)
					want := strings.Join(terms, ",")
					if call%2 == 0 {
						r := wrapper.Call(a...)
						if r.Err() != nil || len(seen) == 0 || seen[len(seen)-1] != want {
							add("wrapper-view", "call %d: the wrapper's callback saw %v err=%v, want %s", call, seen, r.Err(), want)
							return
						}
						continue
					}
					mark := len(w.Log.Inv)
					var r am.Result
					if asConv {
						r = consumer.Call(append(a, am.ConverterFunc(orig))...)
					} else {
						r = orig.Call(a...)
					}
					got := ""
					for _, inv := range w.Log.Inv[mark:] {
						if inv.Func == "orig" {
							var ts []string
							for _, x := range inv.Args {
								ts = append(ts, x.Prov)
							}
							got = strings.Join(ts, ",")
						}
					}
					if r.Err() != nil || got != want {
						add("wrapped-disturbed", "call %d: the wrapped function received [%s] err=%v, its own call supplied [%s]", call, got, r.Err(), want)
						return
					}
				}
				return
			}})
		}
	}
}

func provOfV(v *am.Value) string {
	if v == nil {
		return "<no entry>"
	}
	return provOf(v.Value)
}

// rawFuncDyn / buildBuiltDyn: as rawFunc / buildBuilt with a per-call failing switch.
func (w *World) rawFuncDyn(spec FuncSpec, failing func() bool) interface{} {
	in := sigOf(spec.In, FormStruct)
	if len(spec.In) == 0 {
		in = nil
	}
	out := sigOf(spec.Out, FormStruct)
	if len(spec.Out) == 0 {
		out = nil
	}
	out = append(out, errType)
	ft := reflect.FuncOf(in, out, false)
	return reflect.MakeFunc(ft, func(args []reflect.Value) []reflect.Value {
		var terms []string
		for i := range spec.In {
			terms = append(terms, provOf(args[0].Field(i+1)))
		}
		w.record(spec, terms)
		var res []reflect.Value
		if len(spec.Out) > 0 {
			st := reflect.New(structOf(spec.Out)).Elem()
			if !failing() {
				for i, l := range spec.Out {
					st.Field(i + 1).Set(mkVal(l.T, outTerm(spec, i, terms)))
				}
			}
			res = append(res, st)
		}
		if failing() {
			res = append(res, reflect.ValueOf(w.failErr(spec.ID)))
		} else {
			res = append(res, reflect.Zero(errType))
		}
		return res
	}).Interface()
}

func (w *World) buildBuiltDyn(spec FuncSpec, failing func() bool) (*am.Func, error) {
	inSet, err := am.NewValueSet(valuesOf(spec.In))
	if err != nil {
		return nil, err
	}
	outSet, err := am.NewValueSet(valuesOf(spec.Out))
	if err != nil {
		return nil, err
	}
	return am.BuildFunc(inSet, outSet, func(in, out *am.ValueSet) error {
		vals := in.Values()
		var terms []string
		for i := range spec.In {
			if i < len(vals) {
				terms = append(terms, provOf(vals[i].Value))
			} else {
				terms = append(terms, "<missing>")
			}
		}
		w.record(spec, terms)
		if failing() {
			return w.failErr(spec.ID)
		}
		for i, l := range spec.Out {
			var v *am.Value
			if l.Name != "" {
				v = out.Named(l.Name)
			} else {
				v = typedEntry(out, l)
			}
			if v == nil {
				panic(fmt.Sprintf("harness: built output %s not found in set", l))
			}
			v.Value = mkVal(l.T, outTerm(spec, i, terms))
		}
		return nil
	})
}

// ------------------------------------------------------------------ C16

type optSpec struct {
	Kind string // named | namedsub | typed | niltyped | nilnamed | nilopt
	Name string
	Sub  string
	T    int
	V    string
}

func (o optSpec) String() string {
	switch o.Kind {
	case "named":
		return fmt.Sprintf("Named(%q,%s:%s)", o.Name, typeName(o.T), o.V)
	case "namedsub":
		return fmt.Sprintf("NamedSubtype(%q,%s:%s,%q)", o.Name, typeName(o.T), o.V, o.Sub)
	case "typed":
		return fmt.Sprintf("Typed(%s:%s)", typeName(o.T), o.V)
	case "niltyped":
		return "Typed(nil)"
	case "typedmulti":
		return fmt.Sprintf("Typed(T1:%s,T3,nil@%s)", o.V, o.Sub)
	case "nilnamed":
		return fmt.Sprintf("Named(%q,nil)", o.Name)
	}
	return "nil"
}

func (o optSpec) arg() am.Arg {
	switch o.Kind {
	case "named":
		return am.Named(o.Name, mkVal(o.T, o.V).Interface())
	case "namedsub":
		return am.NamedSubtype(o.Name, mkVal(o.T, o.V).Interface(), o.Sub)
	case "typed":
		return am.Typed(mkVal(o.T, o.V).Interface())
	case "niltyped":
		return am.Typed(nil)
	case "typedmulti":
		// one Typed option with several values, a nil among them at position o.T
		vs := []interface{}{mkVal(1, o.V).Interface(), T3{"multi3"}}
		switch o.Sub {
		case "first":
			vs = append([]interface{}{nil}, vs...)
		case "mid":
			vs = []interface{}{vs[1], nil, vs[0]}
		case "last":
			vs = append(vs, nil)
		}
		return am.Typed(vs...)
	case "nilnamed":
		return am.Named(o.Name, nil)
	}
	return nil
}

// key under which the library files the option ("" = sets nothing)
func (o optSpec) key() string {
	switch o.Kind {
	case "named":
		return "n:" + strings.ToLower(o.Name) + "/"
	case "namedsub":
		return "n:" + strings.ToLower(o.Name) + "/" + o.Sub
	case "typed":
		return fmt.Sprintf("t:%d/", o.T)
	case "typedmulti":
		return "t:1/"
	}
	return ""
}

// target variants: parameter names in different casings / through tags
type c16A struct {
	am.Struct
	A T0
	B T0
	C T1 `argmapper:",typeOnly"`
}
type c16B struct {
	am.Struct
	X T0 `argmapper:"a"`
	Y T0 `argmapper:"B"`
	Z T1 `argmapper:",typeOnly"`
}
type c16C struct {
	am.Struct
	AA T0 `argmapper:"A"`
	Bb T0 `argmapper:"b"`
	Cc T1 `argmapper:",typeOnly"`
}

func init() {
	apiEnums["C16"] = func(mode string, emit func(apiCase)) {
		menu := []optSpec{
			{Kind: "named", Name: "a", T: 0, V: "a1"},
			{Kind: "named", Name: "A", T: 0, V: "a2"},
			{Kind: "named", Name: "b", T: 0, V: "b1"},
			{Kind: "named", Name: "B", T: 0, V: "b2"},
			{Kind: "namedsub", Name: "A", Sub: "x", T: 0, V: "ax"},
			{Kind: "namedsub", Name: "a", Sub: "", T: 0, V: "a0"}, // equivalent to Named("a", ...)
			{Kind: "typed", T: 1, V: "t1"},
			{Kind: "typed", T: 1, V: "t2"},
			{Kind: "niltyped"},
			{Kind: "typedmulti", Sub: "first", V: "m1"},
			{Kind: "typedmulti", Sub: "mid", V: "m2"},
			{Kind: "typedmulti", Sub: "last", V: "m3"},
			{Kind: "nilnamed", Name: "a"},
			{Kind: "nilopt"},
		}
		maxLen := 4
		if mode == "thorough" {
			maxLen = 5
		}
		type tvar struct {
			name string
			mk   func(w *[]string) interface{}
		}
		rec := func(w *[]string, a, b T0, c T1) T2 {
			*w = append(*w, fmt.Sprintf("a=%s b=%s c=%s", a.P, b.P, c.P))
			return T2{"r"}
		}
		tvars := []tvar{
			{"fields A,B", func(w *[]string) interface{} { return func(s c16A) T2 { return rec(w, s.A, s.B, s.C) } }},
			{"tags a,B", func(w *[]string) interface{} { return func(s c16B) T2 { return rec(w, s.X, s.Y, s.Z) } }},
			{"tags A,b ptr", func(w *[]string) interface{} { return func(s *c16C) T2 { return rec(w, s.AA, s.Bb, s.Cc) } }},
		}
		var lists [][]optSpec
		var gen func(cur []optSpec)
		gen = func(cur []optSpec) {
			lists = append(lists, append([]optSpec{}, cur...))
			if len(cur) == maxLen {
				return
			}
			for _, m := range menu {
				gen(append(cur, m))
			}
		}
		gen(nil)
		for li, l := range lists {
			tv := tvars[li%len(tvars)]
			for split := 0; split <= len(l); split++ {
				l, split, tv := l, split, tv
				var ds []string
				for _, o := range l {
					ds = append(ds, o.String())
				}
				desc := fmt.Sprintf("target(%s) defaults=%v call=%v", tv.name, ds[:split], ds[split:])
				emit(apiCase{Desc: desc, Run: func() (fs []Finding) {
					add := func(clause, m string, a ...interface{}) {
						fs = append(fs, Finding{"C16", clause, desc + ": " + fmt.Sprintf(m, a...)})
					}
					var log []string
					var defs, call []am.Arg
					hasNil := false
					last := map[string]string{}
					for i, o := range l {
						if o.Kind == "nilopt" {
							hasNil = true
						}
						if k := o.key(); k != "" {
							last[k] = o.V
						}
						if i < split {
							defs = append(defs, o.arg())
						} else {
							call = append(call, o.arg())
						}
					}
					f, err := am.NewFunc(tv.mk(&log), defs...)
					var callErr error
					if err == nil {
						r := f.Call(call...)
						callErr = r.Err()
					} else {
						callErr = err
					}
					if hasNil {
						if callErr == nil {
							add("nil-option", "a nil option was supplied but no error resulted")
						}
						if len(log) > 0 {
							add("nil-option-ran", "a nil option was supplied but the target ran")
						}
						return
					}
					// expected injection: last occurrence per key; a falls back to a/x
					wa, okA := last["n:a/"]
					if !okA {
						wa, okA = last["n:a/x"]
					}
					wb, okB := last["n:b/"]
					wc, okC := last["t:1/"]
					if okA && okB && okC {
						if callErr != nil {
							add("failed", "every parameter has a value but the call failed: %s", firstLine(callErr.Error()))
							return
						}
						want := fmt.Sprintf("a=%s b=%s c=%s", wa, wb, wc)
						if len(log) != 1 || log[0] != want {
							add("injected", "target observed %v, want [%s] (last occurrence per key; call options override defaults)", log, want)
						}
					} else {
						if callErr == nil || len(log) > 0 {
							add("missing", "a parameter has no value but the call succeeded / the target ran: %v", log)
						}
					}
					return
				}})
			}
		}
		// permutations of option lists with distinct keys giving every parameter an exact match
		base := []optSpec{
			{Kind: "named", Name: "A", T: 0, V: "pa"},
			{Kind: "named", Name: "b", T: 0, V: "pb"},
			{Kind: "typed", T: 1, V: "pc"},
			{Kind: "namedsub", Name: "a", Sub: "x", T: 0, V: "pax"},
			{Kind: "named", Name: "zz", T: 1, V: "pz"},
			{Kind: "typed", T: 0, V: "pt0"},
		}
		for n := 3; n <= len(base); n++ {
			for split := 0; split <= n; split += n {
				n, split := n, split
				desc := fmt.Sprintf("all %d! permutations of %d distinct-key options (defaults/call split %d)", n, n, split)
				emit(apiCase{Desc: desc, Run: func() (fs []Finding) {
					// under one iteration-order policy every permutation must observe the same;
					// the named parameters must receive their exact values
					ref := ""
					for _, perm := range allPerms(n) {
						var log []string
						var defs, call []am.Arg
						for i, pi := range perm {
							if i < split {
								defs = append(defs, base[pi].arg())
							} else {
								call = append(call, base[pi].arg())
							}
						}
						f, err := am.NewFunc(tvars[0].mk(&log), defs...)
						if err != nil {
							return []Finding{{"C16", "perm-construct", desc + ": " + err.Error()}}
						}
						r := f.Call(call...)
						obs := fmt.Sprintf("%v err=%v", log, r.Err())
						if r.Err() != nil || len(log) != 1 || !strings.HasPrefix(log[0], "a=pa b=pb c=") {
							return []Finding{{"C16", "permutation-exact", fmt.Sprintf("%s: permutation %v observed %s, want a=pa b=pb", desc, perm, obs)}}
						}
						if ref == "" {
							ref = obs
						} else if obs != ref {
							return []Finding{{"C16", "permutation", fmt.Sprintf("%s: permutation %v observed %s, the identity permutation %s", desc, perm, obs, ref)}}
						}
					}
					return
				}})
			}
		}
	}
}
