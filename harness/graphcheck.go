package harness

import (
	"encoding/json"
	"fmt"
	"sort"
	"strings"

	"github.com/hashicorp/go-argmapper/internal/graph"
	"github.com/hashicorp/go-argmapper/internal/verifrt"
)

// CaseTier is a tier of a custom engine: Run enumerates cases, consulting pick(idx)
// (sharding + crash attribution) before exploring each.
type CaseTier struct {
	Name, Doc string
	Run       func(st Step, pick func(idx int) bool, stats *Stats, emit func(Replay))
	Replay    func(r Replay) []Finding
}

var CaseTiers = map[string]*CaseTier{}

const inf = 1 << 29

// GraphCase is a weighted digraph on vertices 0..N-1 (W[i][j] < 0: no edge).
type GraphCase struct {
	N    int     `json:"n"`
	W    [][]int `json:"w"`
	Src  int     `json:"src"`
	Decl []int   `json:"decline,omitempty"` // DFS decline set
	Kind string  `json:"kind,omitempty"`
}

func (c GraphCase) String() string {
	var e []string
	for i := 0; i < c.N; i++ {
		for j := 0; j < c.N; j++ {
			if c.W[i][j] >= 0 {
				e = append(e, fmt.Sprintf("%d->%d:%d", i, j, c.W[i][j]))
			}
		}
	}
	s := fmt.Sprintf("n=%d src=%d edges=[%s]", c.N, c.Src, strings.Join(e, " "))
	if c.Kind != "" {
		s = c.Kind + " " + s
	}
	if c.Decl != nil {
		s += fmt.Sprintf(" decline=%v", c.Decl)
	}
	return s
}

func buildGraph(n int, w [][]int) *graph.Graph {
	var g graph.Graph
	for i := 0; i < n; i++ {
		g.Add(i)
	}
	for i := 0; i < n; i++ {
		for j := 0; j < n; j++ {
			if w[i][j] >= 0 {
				g.AddEdgeWeighted(i, j, w[i][j])
			}
		}
	}
	return &g
}

// enumGraphs enumerates all digraphs on n vertices whose ordered pairs are absent or
// weighted from weights; at most maxEdges edges (<0: unlimited).
func enumGraphs(n int, weights []int, selfLoops bool, maxEdges int, f func(w [][]int)) {
	var cells [][2]int
	for i := 0; i < n; i++ {
		for j := 0; j < n; j++ {
			if i != j || selfLoops {
				cells = append(cells, [2]int{i, j})
			}
		}
	}
	w := make([][]int, n)
	for i := range w {
		w[i] = make([]int, n)
		for j := range w[i] {
			w[i][j] = -1
		}
	}
	var rec func(k, edges int)
	rec = func(k, edges int) {
		if k == len(cells) {
			f(w)
			return
		}
		c := cells[k]
		w[c[0]][c[1]] = -1
		rec(k+1, edges)
		if maxEdges < 0 || edges < maxEdges {
			for _, x := range weights {
				w[c[0]][c[1]] = x
				rec(k+1, edges+1)
			}
		}
		w[c[0]][c[1]] = -1
	}
	rec(0, 0)
}

func copyW(w [][]int) [][]int {
	r := make([][]int, len(w))
	for i := range w {
		r[i] = append([]int{}, w[i]...)
	}
	return r
}

func floyd(n int, w [][]int) [][]int {
	d := make([][]int, n)
	for i := range d {
		d[i] = make([]int, n)
		for j := range d[i] {
			d[i][j] = inf
			if w[i][j] >= 0 {
				d[i][j] = w[i][j]
			}
		}
		d[i][i] = 0
	}
	for k := 0; k < n; k++ {
		for i := 0; i < n; i++ {
			for j := 0; j < n; j++ {
				if d[i][k]+d[k][j] < d[i][j] {
					d[i][j] = d[i][k] + d[k][j]
				}
			}
		}
	}
	return d
}

// checkDijkstra runs the real Dijkstra on the case and compares with Floyd-Warshall.
func checkDijkstra(c GraphCase) (fs []Finding) {
	add := func(clause, m string, a ...interface{}) {
		fs = append(fs, Finding{"C18", clause, fmt.Sprintf(m, a...)})
	}
	defer func() {
		if r := recover(); r != nil {
			if _, ok := r.(verifrt.HarnessError); ok {
				panic(r)
			}
			add("panic", "panic: %v", r)
		}
	}()
	verifrt.ResetBudget()
	d := floyd(c.N, c.W)
	g := buildGraph(c.N, c.W)
	if c.Kind == "twice" && c.N > 1 {
		// a search from another source on the same Graph value first: results must not
		// depend on earlier searches
		g.Dijkstra((c.Src + 1) % c.N)
	}
	distTo, edgeTo := g.Dijkstra(c.Src)
	for v := 0; v < c.N; v++ {
		path := g.EdgeToPath(v, edgeTo)
		if d[c.Src][v] < inf {
			if distTo[v] != d[c.Src][v] {
				add("distance", "distTo[%d]=%d, true distance %d", v, distTo[v], d[c.Src][v])
			}
			sum, ok := 0, len(path) > 0 && path[0] == c.Src && path[len(path)-1] == v
			for i := 1; i < len(path) && ok; i++ {
				a, aok := path[i-1].(int)
				b, bok := path[i].(int)
				if !aok || !bok || c.W[a][b] < 0 {
					ok = false
				} else {
					sum += c.W[a][b]
				}
			}
			if !ok {
				add("path", "predecessor chain of %d is not a source-to-vertex path of existing edges: %v", v, path)
			} else if sum != d[c.Src][v] {
				add("path-sum", "path to %d sums to %d, true distance %d: %v", v, sum, d[c.Src][v], path)
			}
		} else {
			for _, x := range path {
				if x == c.Src {
					add("unreachable", "predecessor chain of unreachable %d leads to the source: %v", v, path)
				}
			}
		}
	}
	return
}

// exploreCase explores one case under the order bound (bound<0: all orders at all sites).
func exploreCase(prop, engine, tier string, c GraphCase, bound int, check func(GraphCase) []Finding, stats *Stats, emit func(Replay)) {
	stats.Scenarios++
	stats.Premise++
	if stats.Scenarios%1000 == 7 {
		noteSample(func() string { return c.String() })
	}
	var cur []Finding
	seen := map[string]bool{}
	outcomes := 0
	e := &OrderExplorer{Bound: bound, Run: func() { cur = check(c) }, Visit: func(choices []int, reverse bool, pts []point) {
		for _, f := range cur {
			if seen[f.Clause] {
				continue
			}
			seen[f.Clause] = true
			b, _ := json.Marshal(c)
			emit(Replay{Property: prop, Clause: f.Clause, Msg: f.Msg, Engine: engine, Tier: tier, Extra: b, Choices: trimZeros(choices), Reverse: reverse, Observed: f.Msg})
		}
	}}
	if bound < 0 {
		// all orders at all sites: finite on the intended code (a few hundred executions
		// per case); capped so that a change which multiplies the choice points (e.g.
		// unbounded recursion) cannot make one case run for ever
		e.Bound = 1 << 20
		e.MaxExecs = 50000
	}
	e.Explore()
	if e.Capped {
		stats.Classes["capped"]++
	}
	_ = outcomes
	stats.Execs += e.Execs
	stats.Points += e.Points
	if e.MaxPoints > stats.MaxPoints {
		stats.MaxPoints = e.MaxPoints
	}
	if e.MaxPoints > 0 {
		stats.Nontrivial++
	}
}

func replayGraph(check func(GraphCase) []Finding) func(r Replay) []Finding {
	return func(r Replay) []Finding {
		var c GraphCase
		if err := json.Unmarshal(r.Extra, &c); err != nil {
			panic(HarnessPanic{"bad graph case: " + err.Error()})
		}
		var fs []Finding
		OrderRun(r.Choices, r.Reverse, nil, func() { fs = check(c) })
		fmt.Printf("case: %s\nchoices=%v reverse=%v\n", c, r.Choices, r.Reverse)
		return fs
	}
}

func init() {
	CaseTiers["graph-sp"] = &CaseTier{Name: "graph-sp",
		Doc: "all digraphs on n vertices, each ordered pair absent or weighted; every source; Floyd-Warshall oracle",
		Run: func(st Step, pick func(int) bool, stats *Stats, emit func(Replay)) {
			idx := -1
			do := func(n int, weights []int, self bool, maxEdges, bound int) {
				enumGraphs(n, weights, self, maxEdges, func(w [][]int) {
					for src := 0; src < n; src++ {
						idx++
						if !pick(idx) {
							continue
						}
						exploreCase("C18", "graph-sp", st.Tier, GraphCase{N: n, W: copyW(w), Src: src}, bound, checkDijkstra, stats, emit)
						if n == 3 {
							// the same search after an earlier one on the same Graph value
							b2 := 0
							if bound < 0 {
								b2 = 1
							}
							exploreCase("C18", "graph-sp", st.Tier, GraphCase{N: n, W: copyW(w), Src: src, Kind: "twice"}, b2, checkDijkstra, stats, emit)
						}
					}
				})
			}
			switch st.Size {
			case 0: // all orders at all sites
				do(2, []int{0, 1}, false, -1, -1)
				do(3, []int{0, 1}, false, -1, -1)
			case 1:
				do(3, []int{0, 1, 3}, true, -1, st.Bound)
			case 2: // every digraph on 4 vertices over two weights (3^12 graphs)
				do(4, []int{1, 2}, false, -1, st.Bound)
			case 3:
				do(5, []int{1, 2}, false, 5, st.Bound)
			case 4:
				do(4, []int{0, 1}, false, 5, st.Bound)
			case 5: // five vertices (heap positions >= 3) with zero-weight edges
				do(5, []int{0, 1}, false, 4, st.Bound)
			case 6:
				do(5, []int{0, 1}, false, 5, st.Bound)
			case 7: // six vertices, sparse
				do(6, []int{0, 1}, false, 5, st.Bound)
			case 8:
				do(6, []int{0, 1}, false, 4, st.Bound)
			}
		},
		Replay: replayGraph(checkDijkstra),
	}
	Plans["C18"] = map[string][]Step{
		"quick":    {{Tier: "graph-sp", Size: 0}, {Tier: "graph-sp", Size: 1, Bound: 1}, {Tier: "graph-sp", Size: 4, Bound: 1}, {Tier: "graph-sp", Size: 8, Bound: 0}},
		"thorough": {{Tier: "graph-sp", Size: 0}, {Tier: "graph-sp", Size: 1, Bound: 1}, {Tier: "graph-sp", Size: 2, Bound: 1}, {Tier: "graph-sp", Size: 4, Bound: 2}, {Tier: "graph-sp", Size: 3, Bound: 0}, {Tier: "graph-sp", Size: 5, Bound: 1}, {Tier: "graph-sp", Size: 6, Bound: 1}, {Tier: "graph-sp", Size: 7, Bound: 0}},
	}
}

// ------------------------------------------------------------------ C20

func reachMatrix(n int, w [][]int) [][]bool {
	r := make([][]bool, n)
	for i := range r {
		r[i] = make([]bool, n)
		for j := range r[i] {
			r[i][j] = w[i][j] >= 0
		}
	}
	for k := 0; k < n; k++ {
		for i := 0; i < n; i++ {
			for j := 0; j < n; j++ {
				if r[i][k] && r[k][j] {
					r[i][j] = true
				}
			}
		}
	}
	return r
}

func checkTraversal(c GraphCase) (fs []Finding) {
	add := func(clause, m string, a ...interface{}) {
		fs = append(fs, Finding{"C20", clause, fmt.Sprintf(m, a...)})
	}
	defer func() {
		if r := recover(); r != nil {
			if _, ok := r.(verifrt.HarnessError); ok {
				panic(r)
			}
			add("panic", "panic in %s: %v", c.Kind, r)
		}
	}()
	verifrt.ResetBudget()
	n := c.N
	g := buildGraph(n, c.W)
	switch c.Kind {
	case "dfs":
		decl := map[int]bool{}
		for _, d := range c.Decl {
			decl[d] = true
		}
		// reference: vertices reachable from src by a path whose interior avoids decl
		want := map[int]bool{}
		stack := []int{c.Src}
		expanded := map[int]bool{c.Src: true}
		for len(stack) > 0 {
			u := stack[len(stack)-1]
			stack = stack[:len(stack)-1]
			for v := 0; v < n; v++ {
				if c.W[u][v] < 0 || v == c.Src {
					continue
				}
				want[v] = true
				if !decl[v] && !expanded[v] {
					expanded[v] = true
					stack = append(stack, v)
				}
			}
		}
		count := map[int]int{}
		err := g.DFS(c.Src, func(v graph.Vertex, next func() error) error {
			count[v.(int)]++
			if decl[v.(int)] {
				return nil
			}
			return next()
		})
		if err != nil {
			add("dfs-error", "DFS returned %v", err)
		}
		for v := range want {
			if count[v] == 0 {
				add("dfs-missing", "vertex %d is reachable without passing a declined vertex but was not reported", v)
			}
		}
		for v, k := range count {
			if !want[v] {
				add("dfs-extra", "vertex %d reported but not reachable (or is the start)", v)
			}
			if !decl[v] && k != 1 {
				add("dfs-repeat", "vertex %d was descended into and reported %d times", v, k)
			}
		}
	case "kahn":
		reach := reachMatrix(n, c.W)
		cyclic := false
		for i := 0; i < n; i++ {
			if reach[i][i] {
				cyclic = true
			}
		}
		var order graph.TopoOrder
		panicked := func() (p bool) {
			defer func() {
				if r := recover(); r != nil {
					if be, ok := r.(verifrt.BudgetExceeded); ok {
						panic(be)
					}
					p = true
				}
			}()
			order = g.KahnSort()
			return false
		}()
		if cyclic != panicked {
			add("kahn-cycle", "graph cyclic=%v but KahnSort panicked=%v", cyclic, panicked)
		}
		if !panicked {
			pos := map[int]int{}
			for i, v := range order {
				if _, dup := pos[v.(int)]; dup {
					add("kahn-dup", "vertex %v twice in order %v", v, order)
				}
				pos[v.(int)] = i
			}
			if len(pos) != n {
				add("kahn-perm", "order %v is not a permutation of %d vertices", order, n)
			}
			for i := 0; i < n; i++ {
				for j := 0; j < n; j++ {
					if c.W[i][j] >= 0 && pos[i] >= pos[j] {
						add("kahn-edge", "edge %d->%d points backward in %v", i, j, order)
					}
				}
			}
			// original untouched
			for i := 0; i < n; i++ {
				if len(g.OutEdges(i)) != outDeg(c.W, i) {
					add("kahn-mutates", "KahnSort changed the graph")
				}
			}
		}
	case "scc":
		reach := reachMatrix(n, c.W)
		comps := g.StronglyConnected()
		where := map[int]int{}
		for ci, comp := range comps {
			for _, v := range comp {
				if _, dup := where[v.(int)]; dup {
					add("scc-dup", "vertex %v in two components: %v", v, comps)
				}
				where[v.(int)] = ci
			}
		}
		if len(where) != n {
			add("scc-cover", "components %v do not cover %d vertices", comps, n)
		}
		for i := 0; i < n; i++ {
			for j := 0; j < n; j++ {
				mutual := i == j || (reach[i][j] && reach[j][i])
				ci, iok := where[i]
				cj, jok := where[j]
				if iok && jok && mutual != (ci == cj) {
					add("scc-class", "vertices %d,%d mutually reachable=%v but same component=%v: %v", i, j, mutual, ci == cj, comps)
				}
			}
		}
	case "topo":
		// single-rooted DAG (premise established by the enumerator)
		order := g.KahnSort()
		dT, eT := g.TopoShortestPath(order)
		root := order[0].(int)
		dD, _ := g.Dijkstra(root)
		d := floyd(n, c.W)
		for v := 0; v < n; v++ {
			if v == root {
				continue
			}
			if dT[v] != dD[v] {
				add("topo-dist", "TopoShortestPath dist[%d]=%d, Dijkstra %d", v, dT[v], dD[v])
			}
			if dT[v] != d[root][v] {
				add("topo-true", "TopoShortestPath dist[%d]=%d, true distance %d", v, dT[v], d[root][v])
			}
			path := g.EdgeToPath(v, eT)
			sum, ok := 0, len(path) > 0 && path[0] == root
			for i := 1; i < len(path) && ok; i++ {
				a, b := path[i-1].(int), path[i].(int)
				if c.W[a][b] < 0 {
					ok = false
				} else {
					sum += c.W[a][b]
				}
			}
			if !ok || sum != d[root][v] {
				add("topo-path", "edgeTo path of %d = %v (sum %d, true %d)", v, path, sum, d[root][v])
			}
		}
	}
	return
}

func outDeg(w [][]int, i int) int {
	k := 0
	for _, x := range w[i] {
		if x >= 0 {
			k++
		}
	}
	return k
}

func init() {
	CaseTiers["graph-trav"] = &CaseTier{Name: "graph-trav",
		Doc: "all digraphs on <=n vertices: DFS from every start with every decline set; KahnSort; StronglyConnected; TopoShortestPath vs Dijkstra on single-rooted weighted DAGs; transitive-closure oracle",
		Run: func(st Step, pick func(int) bool, stats *Stats, emit func(Replay)) {
			idx := -1
			one := func(c GraphCase, bound int) {
				idx++
				if pick(idx) {
					exploreCase("C20", "graph-trav", st.Tier, c, bound, checkTraversal, stats, emit)
				}
			}
			do := func(n int, self bool, bound int) {
				enumGraphs(n, []int{1}, self, -1, func(w [][]int) {
					for src := 0; src < n; src++ {
						for _, dset := range subsetsUpTo(n, n) {
							one(GraphCase{N: n, W: copyW(w), Src: src, Decl: append([]int{}, dset...), Kind: "dfs"}, bound)
						}
					}
					b2 := bound
					if b2 < 0 { // "all orders" is feasible for DFS only (few choice points)
						b2 = 2
					}
					one(GraphCase{N: n, W: copyW(w), Kind: "kahn"}, b2)
					one(GraphCase{N: n, W: copyW(w), Kind: "scc"}, b2)
				})
			}
			topo := func(n int, bound int) {
				enumGraphs(n, []int{1, 2}, false, -1, func(w [][]int) {
					reach := reachMatrix(n, w)
					roots := 0
					for i := 0; i < n; i++ {
						if reach[i][i] {
							return
						}
						indeg := 0
						for j := 0; j < n; j++ {
							if w[j][i] >= 0 {
								indeg++
							}
						}
						if indeg == 0 {
							roots++
						}
					}
					if roots != 1 {
						return
					}
					one(GraphCase{N: n, W: copyW(w), Kind: "topo"}, bound)
				})
			}
			switch st.Size {
			case 0: // n <= 3: all orders
				do(2, true, -1)
				do(3, false, -1)
				topo(3, 2)
			case 1:
				do(3, true, st.Bound)
			case 2:
				do(4, false, st.Bound)
				topo(4, st.Bound)
			case 3:
				do(4, true, st.Bound)
			}
		},
		Replay: replayGraph(checkTraversal),
	}
	Plans["C20"] = map[string][]Step{
		"quick":    {{Tier: "graph-trav", Size: 0}, {Tier: "graph-trav", Size: 1, Bound: 2}, {Tier: "graph-trav", Size: 2, Bound: 1}},
		"thorough": {{Tier: "graph-trav", Size: 0}, {Tier: "graph-trav", Size: 1, Bound: 2}, {Tier: "graph-trav", Size: 2, Bound: 1}, {Tier: "graph-trav", Size: 3, Bound: 0}},
	}
}

var _ = sort.Ints
