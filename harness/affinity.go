package harness

import "fmt"

// C07: name affinity. Scenario.Affinity selects the clause:
//   "input": a type-only converter T1->T0 must be fed by the input named like the parameter;
//   "conv":  of a converter taking the name explicitly (id "cn") and a type-only one (id "ct"),
//            the named one is executed.

func checkAffinity(s Scenario, o Outcome, add func(p, clause, m string, a ...interface{})) {
	if s.Affinity == "" || o.Panic != "" || o.BuildErr != "" {
		return
	}
	if !o.OK {
		add("C07", "failed", "call failed: %s", firstLine(fmt.Sprint(o.Err)))
		return
	}
	p := s.Target.In[0]
	_ = p
	switch s.Affinity {
	case "input":
		// every named parameter (of the target or of a downstream converter) that was
		// produced by the type-only converter c0 must have been converted from the
		// input of its own name
		byName := map[string]string{}
		for _, in := range s.Inputs {
			byName[in.L.Name] = in.V
		}
		ran := false
		for _, inv := range o.Log.Inv {
			if inv.Func == "c0" {
				ran = true
				continue
			}
			for _, a := range inv.Args {
				m := termRe.FindStringSubmatch(a.Prov)
				if a.Param.Name == "" || m == nil || m[1] != "c0" {
					continue
				}
				if want := byName[a.Param.Name]; m[3] != want {
					add("C07", "wrong-input", "%s parameter %s must be converted from the same-named input %s, but it was converted from %s", inv.Func, a.Param, want, m[3])
				}
			}
		}
		if !ran {
			add("C07", "no-conversion", "converter did not run")
		}
	case "conv":
		named, typed := false, false
		for _, inv := range o.Log.Inv {
			if inv.Func == "cn" {
				named = true
			}
			if inv.Func == "ct" {
				typed = true
			}
		}
		if !named || typed {
			add("C07", "wrong-converter", "the converter using the name must be the one executed: named ran=%v, type-only ran=%v", named, typed)
		}
	}
}

func init() {
	reg("affinity", "named parameter n:T0 produced by conversion from T1; part 1: 2-3 named T1 inputs (names from a,b,c, including n), one type-only converter T1->T0 in each form, every permutation of the option list; part 2: a converter taking n:T1 and a type-only converter T1->T0 (each form, every registration order)", func(size int, emit func(Scenario)) {
		names := []string{"a", "b", "c"}
		type cform struct {
			in  Form
			out Form
			on  bool // output named like the parameter
		}
		var cforms []cform
		for _, i := range []Form{FormPositional, FormStruct, FormPtrStruct} {
			cforms = append(cforms, cform{i, FormPositional, false}, cform{i, FormStruct, false}, cform{i, FormStruct, true})
			if size >= 1 {
				cforms = append(cforms, cform{i, FormPtrStruct, false}, cform{i, FormPtrStruct, true})
			}
		}
		for _, n := range []string{"a", "b"} {
			param := Label{n, 0, ""}
			for _, sub := range subsetsUpTo(3, 3) {
				if len(sub) < 2 {
					continue
				}
				has := false
				var ins []Label
				for _, i := range sub {
					ins = append(ins, Label{names[i], 1, ""})
					if names[i] == n {
						has = true
					}
				}
				if !has {
					continue
				}
				for _, cf := range cforms {
					out := Label{"", 0, ""}
					if cf.on {
						out = param
					}
					conv := FuncSpec{ID: "c0", In: []Label{{"", 1, ""}}, Out: []Label{out}, InForm: cf.in, OutForm: cf.out}
					nopts := len(ins) + 1
					for _, perm := range allPerms(nopts) {
						emit(Scenario{Affinity: "input", Target: FuncSpec{ID: "tgt", In: []Label{param}, Out: []Label{{"", 2, ""}}, OutForm: FormPositional},
							Inputs: mkInputs(ins), Convs: []FuncSpec{conv}, ArgOrder: append([]int{}, perm...)})
					}
				}
			}
			// part 1c: the parameter that needs conversion carries a subtype
			for _, sub := range subsetsUpTo(3, 3) {
				if len(sub) < 2 {
					continue
				}
				has := false
				var ins []Label
				for _, i := range sub {
					ins = append(ins, Label{names[i], 1, ""})
					has = has || names[i] == n
				}
				if !has {
					continue
				}
				for _, outL := range []Label{{"", 0, ""}, {n, 0, "x"}} {
					for _, inF := range []Form{FormPositional, FormStruct} {
						conv := FuncSpec{ID: "c0", In: []Label{{"", 1, ""}}, Out: []Label{outL}, InForm: inF, OutForm: FormStruct}
						for _, perm := range allPerms(len(ins) + 1) {
							emit(Scenario{Affinity: "input", Target: FuncSpec{ID: "tgt", In: []Label{{n, 0, "x"}}, Out: []Label{{"", 2, ""}}, OutForm: FormPositional},
								Inputs: mkInputs(ins), Convs: []FuncSpec{conv}, ArgOrder: append([]int{}, perm...)})
						}
					}
				}
			}
			// part 1b: the converter is needed more than once in one call — two named
			// parameters of the target, or one of the target and one of a downstream
			// converter, each with its own same-named input among the competitors
			if n == "a" {
				for _, cf := range cforms {
					out := Label{"", 0, ""}
					if cf.on {
						continue // a named output serves one name only
					}
					conv := FuncSpec{ID: "c0", In: []Label{{"", 1, ""}}, Out: []Label{out}, InForm: cf.in, OutForm: cf.out}
					for _, nin := range []int{2, 3} {
						var ins []Label
						for i := 0; i < nin; i++ {
							ins = append(ins, Label{names[i], 1, ""})
						}
						nopts := len(ins) + 1
						for _, perm := range allPerms(nopts) {
							emit(Scenario{Affinity: "input", Target: FuncSpec{ID: "tgt", In: []Label{{"a", 0, ""}, {"b", 0, ""}}, Out: []Label{{"", 2, ""}}, OutForm: FormPositional},
								Inputs: mkInputs(ins), Convs: []FuncSpec{conv}, ArgOrder: append([]int{}, perm...)})
						}
						down := FuncSpec{ID: "c1", In: []Label{{"b", 0, ""}}, Out: []Label{{"", 3, ""}}, InForm: FormStruct, OutForm: FormPositional}
						for _, perm := range allPerms(nopts + 1) {
							emit(Scenario{Affinity: "input", Target: FuncSpec{ID: "tgt", In: []Label{{"a", 0, ""}, {"", 3, ""}}, Out: []Label{{"", 2, ""}}, OutForm: FormPositional},
								Inputs: mkInputs(ins), Convs: []FuncSpec{conv, down}, ArgOrder: append([]int{}, perm...)})
						}
					}
				}
			}
			// part 2
			for ei, extra := range [][]Label{{}, {{"c", 1, ""}}, {{"c", 1, ""}, {"d", 1, ""}}, {}} {
				ins := append([]Label{{n, 1, ""}}, extra...)
				if ei == 3 {
					// the same-named input is supplied with a subtype (NamedSubtype); the
					// name-taking converter declares it without
					ins = []Label{{n, 1, "x"}}
				}
				for _, cf := range cforms {
					out := Label{"", 0, ""}
					if cf.on {
						out = param
					}
					for _, nf := range []Form{FormStruct, FormPtrStruct} {
						// equal candidates: both converters produce the same label (a converter
						// producing exactly the named parameter and one producing a type-only
						// value differ in more than their use of the name)
						for _, nout := range []Label{out} {
							ct := FuncSpec{ID: "ct", In: []Label{{"", 1, ""}}, Out: []Label{out}, InForm: cf.in, OutForm: cf.out}
							cn := FuncSpec{ID: "cn", In: []Label{{n, 1, ""}}, Out: []Label{nout}, InForm: nf, OutForm: FormStruct}
							if nout.Name == "" {
								cn.OutForm = FormPositional
							}
							if !distinctFuncTypes([]FuncSpec{ct, cn}) {
								continue
							}
							nopts := len(ins) + 2
							for _, perm := range allPerms(nopts) {
								if size == 0 && len(ins) == 3 && perm[0] != 0 {
									continue
								}
								emit(Scenario{Affinity: "conv", Target: FuncSpec{ID: "tgt", In: []Label{param}, Out: []Label{{"", 2, ""}}, OutForm: FormPositional},
									Inputs: mkInputs(ins), Convs: []FuncSpec{ct, cn}, ArgOrder: append([]int{}, perm...)})
							}
						}
					}
				}
			}
		}
	})
	Plans["C07"] = map[string][]Step{
		"quick":    {{Tier: "affinity", Size: 0, Bound: 1}},
		"thorough": {{Tier: "affinity", Size: 1, Bound: 1}},
	}
}
