package harness

// Reference label model (DESIGN.md §5): two relations between a supplier label v
// and a parameter label p with Core ⊆ Lib ⊆ Env, and the least-fixpoint derivation.

func implementsI(t int) bool { return t == 3 } // only T3 implements Iface (and Iface2)

// implements: value type v can be injected where interface type p is required.
func implements(v, p int) bool {
	switch p {
	case TI:
		return v == 3 || v == TI2
	case TI2:
		return v == 3
	}
	return false
}

// Env is the soundness envelope stated by C01: anything the library injects
// outside it is a violation.
func Env(v, p Label) bool {
	if v.Name != "" && p.Name != "" && v.Name != p.Name {
		return false
	}
	if v.T == p.T {
		return v.Sub == p.Sub || v.Sub == "" || p.Sub == ""
	}
	return implements(v.T, p.T)
}

// Core is the set of direct matches the library certainly implements: anything
// derivable through Core must be found.
func Core(v, p Label) bool {
	if p.Name != "" { // named parameter
		if v.Name != "" { // named value
			if v.Name != p.Name || v.T != p.T {
				return false
			}
			return v.Sub == p.Sub || (p.Sub == "" && v.Sub != "")
		}
		// typed value
		if v.T == p.T {
			return v.Sub == ""
		}
		return implements(v.T, p.T)
	}
	// typed parameter
	if v.Name != "" { // named value
		if v.T != p.T {
			return false
		}
		return p.Sub == "" || v.Sub == p.Sub
	}
	if v.T == p.T {
		return v.Sub == p.Sub || v.Sub == "" || p.Sub == ""
	}
	return implements(v.T, p.T)
}

type compatFn func(v, p Label) bool

// derive returns the available supplier labels under the least fixpoint and which
// converters are satisfiable.
func derive(s Scenario, compat compatFn) (avail []Label, convSat []bool) {
	return deriveGen(s, compat, false)
}

// genVisible: converter generators run in a single pass over the values present in
// the graph when the options are applied (supplied values, named parameters of the
// target and of supplied converters, outputs of supplied converters). A generated
// converter whose trigger type only appears through another generated converter is
// never generated; the completeness model (Core) does not count on it.
func genVisible(s Scenario, c FuncSpec) bool {
	if len(c.In) == 0 {
		return false
	}
	t := c.In[0].T
	for _, in := range s.Inputs {
		if in.L.T == t {
			return true
		}
	}
	for _, l := range s.Target.In {
		if l.Name != "" && l.T == t {
			return true
		}
	}
	for _, d := range s.Convs {
		if d.Gen {
			continue
		}
		for _, l := range d.In {
			if l.Name != "" && l.T == t {
				return true
			}
		}
		for _, l := range d.Out {
			if l.T == t {
				return true
			}
		}
	}
	return false
}

func deriveGen(s Scenario, compat compatFn, strictGen bool) (avail []Label, convSat []bool) {
	for _, in := range s.Inputs {
		avail = append(avail, in.L)
	}
	convSat = make([]bool, len(s.Convs))
	for changed := true; changed; {
		changed = false
		for ci, c := range s.Convs {
			if convSat[ci] {
				continue
			}
			if strictGen && c.Gen && !genVisible(s, c) {
				continue
			}
			if satisfiable(c.In, avail, compat) {
				convSat[ci] = true
				changed = true
				avail = append(avail, c.Out...)
			}
		}
	}
	return
}

func satisfiable(params []Label, avail []Label, compat compatFn) bool {
	for _, p := range params {
		ok := false
		for _, v := range avail {
			if compat(v, p) {
				ok = true
				break
			}
		}
		if !ok {
			return false
		}
	}
	return true
}

func paramDerivable(p Label, avail []Label, compat compatFn) bool {
	return satisfiable([]Label{p}, avail, compat)
}

// hopeless: matched by no supplied value and no output of any supplied converter.
func hopeless(p Label, s Scenario, compat compatFn) bool {
	for _, in := range s.Inputs {
		if compat(in.L, p) {
			return false
		}
	}
	for _, c := range s.Convs {
		for _, o := range c.Out {
			if compat(o, p) {
				return false
			}
		}
	}
	return true
}

// convGraphAcyclic: dependency c -> c' if some output of c' is Env-compatible with
// some input of c (Env makes "acyclic" conservative).
func convGraphAcyclic(s Scenario) bool {
	n := len(s.Convs)
	adj := make([][]int, n)
	for i, c := range s.Convs {
		for j, d := range s.Convs {
			dep := false
			for _, p := range c.In {
				for _, o := range d.Out {
					if Env(o, p) {
						dep = true
					}
				}
			}
			if dep {
				adj[i] = append(adj[i], j)
			}
		}
	}
	state := make([]int, n)
	var visit func(i int) bool
	visit = func(i int) bool {
		state[i] = 1
		for _, j := range adj[i] {
			if state[j] == 1 {
				return false
			}
			if state[j] == 0 && !visit(j) {
				return false
			}
		}
		state[i] = 2
		return true
	}
	for i := 0; i < n; i++ {
		if state[i] == 0 && !visit(i) {
			return false
		}
	}
	return true
}

func maxConvInputs(s Scenario) int {
	m := 0
	for _, c := range s.Convs {
		if len(c.In) > m {
			m = len(c.In)
		}
	}
	return m
}

// exactKey reports whether the caller supplied a value with exactly the parameter's
// key (C03/C13): same name, type and subtype for a named parameter; exactly its type
// and subtype (named or not) for a type-only parameter.
func exactKey(p Label, inputs []Input) bool {
	for _, in := range inputs {
		if p.Name != "" {
			if in.L == p {
				return true
			}
		} else if in.L.T == p.T && in.L.Sub == p.Sub {
			return true
		}
	}
	return false
}
