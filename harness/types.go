// Package harness closes go-argmapper with small drivers and explores it exhaustively
// within stated bounds (DESIGN.md). Everything here runs the real library, built
// through the vinst overlay from /repo's working tree.
package harness

import (
	"fmt"
	"reflect"
	"strings"

	am "github.com/hashicorp/go-argmapper"
)

// Carrier types: distinct named struct types carrying a provenance term.
type T0 struct{ P string }
type T1 struct{ P string }
type T2 struct{ P string }
type T3 struct{ P string }
type T4 struct{ P string }

// Iface is implemented by T3 only.
type Iface interface{ Prov() string }

func (t T3) Prov() string { return t.P }

var carrier = []reflect.Type{reflect.TypeOf(T0{}), reflect.TypeOf(T1{}), reflect.TypeOf(T2{}), reflect.TypeOf(T3{}), reflect.TypeOf(T4{})}
var ifaceType = reflect.TypeOf((*Iface)(nil)).Elem()
var errType = reflect.TypeOf((*error)(nil)).Elem()
var markerType = reflect.TypeOf(am.Struct{})

// TI is the type index of Iface.
const TI = 9

// Type indexes: 0-4 carrier structs, 5/6 pointers to T0/T1 (composite, unnamed types),
// 8 Iface2 (an interface whose method set includes Iface's), 9 Iface.
const (
	TP0 = 5
	TP1 = 6
	TE  = 7 // *myErr: a concrete type implementing error (an ordinary value for the library)
	TI2 = 8
)

// Iface2 is a second interface implemented by T3; every Iface2 is an Iface.
type Iface2 interface {
	Prov() string
	Extra() int
}

func (t T3) Extra() int { return len(t.P) }

var iface2Type = reflect.TypeOf((*Iface2)(nil)).Elem()

func typeOf(i int) reflect.Type {
	switch i {
	case TI:
		return ifaceType
	case TI2:
		return iface2Type
	case TP0:
		return reflect.PtrTo(carrier[0])
	case TP1:
		return reflect.PtrTo(carrier[1])
	case TE:
		return myErrType
	}
	return carrier[i]
}

func typeIndex(t reflect.Type) int {
	switch t {
	case ifaceType:
		return TI
	case iface2Type:
		return TI2
	case reflect.PtrTo(carrier[0]):
		return TP0
	case reflect.PtrTo(carrier[1]):
		return TP1
	case myErrType:
		return TE
	}
	for i, c := range carrier {
		if c == t {
			return i
		}
	}
	return -1
}

func typeName(i int) string {
	switch i {
	case TI:
		return "I"
	case TI2:
		return "I2"
	case TP0:
		return "P0"
	case TP1:
		return "P1"
	case TE:
		return "E"
	}
	return fmt.Sprintf("T%d", i)
}

// Label is (name, type, subtype): what the library matches on.
type Label struct {
	Name string `json:"n,omitempty"`
	T    int    `json:"t"`
	Sub  string `json:"s,omitempty"`
}

func (l Label) String() string {
	n := l.Name
	if n == "" {
		n = "_"
	}
	s := n + ":" + typeName(l.T)
	if l.Sub != "" {
		s += "/" + l.Sub
	}
	return s
}

func labelsString(ls []Label) string {
	var r []string
	for _, l := range ls {
		r = append(r, l.String())
	}
	return strings.Join(r, ",")
}

type Form int

const (
	FormStruct Form = iota
	FormPtrStruct
	FormPositional // only legal when all labels are unnamed and without subtype
)

func (f Form) String() string { return [...]string{"S", "P", "L"}[f] }

// FuncSpec describes a synthesised function (target or converter).
type FuncSpec struct {
	ID      string  `json:"id"`
	In      []Label `json:"in,omitempty"`
	Out     []Label `json:"out,omitempty"`
	InForm  Form    `json:"inform,omitempty"`
	OutForm Form    `json:"outform,omitempty"`
	HasErr  bool    `json:"haserr,omitempty"`
	Fails   bool    `json:"fails,omitempty"`
	Once    bool    `json:"once,omitempty"`
	Built   bool    `json:"built,omitempty"`  // assembled with BuildFunc over NewValueSet
	Gen     bool    `json:"gen,omitempty"`    // supplied through ConverterGen
	NilOut  bool    `json:"nilout,omitempty"` // pointer-struct result returned as nil
	// TypedNil: a failing function returns a non-nil error interface holding a nil *myErr
	TypedNil bool `json:"typednil,omitempty"`
	// NilIface: interface-typed outputs are returned as nil interface values
	NilIface bool `json:"niliface,omitempty"`
	// UnsatErr: a failing function returns an error wrapping an *ErrArgumentUnsatisfied
	// of its own (as a converter that delegates to another Func.Call would)
	UnsatErr bool `json:"unsaterr,omitempty"`
}

func (f FuncSpec) sig() string {
	s := fmt.Sprintf("(%s)%s->(%s)%s", labelsString(f.In), f.InForm, labelsString(f.Out), f.OutForm)
	if f.HasErr {
		s += "E"
	}
	return s
}

func (f FuncSpec) String() string {
	s := f.ID + f.sig()
	if f.Fails {
		s += "!fail"
	}
	if f.Once {
		s += "!once"
	}
	if f.Built {
		s += "!built"
	}
	if f.Gen {
		s += "!gen"
	}
	if f.NilOut {
		s += "!nil"
	}
	if f.TypedNil {
		s += "!typednil"
	}
	if f.UnsatErr {
		s += "!unsaterr"
	}
	if f.NilIface {
		s += "!niliface"
	}
	return s
}

// Input is a value supplied by the caller under a label.
type Input struct {
	L Label  `json:"l"`
	V string `json:"v"` // provenance id
}

// Scenario is one closed use of the library.
type Scenario struct {
	Mode   string     `json:"mode,omitempty"` // "" = Call, "convert", "redefine"
	Target FuncSpec   `json:"target"`
	Inputs []Input    `json:"inputs,omitempty"`
	Convs  []FuncSpec `json:"convs,omitempty"`
	// Redefine only
	HasFilter bool  `json:"hasfilter,omitempty"`
	FilterIn  []int `json:"filterin,omitempty"`  // permitted type indexes
	FilterOut int   `json:"filterout,omitempty"` // 0 none, 1 accepts all, 2 rejects all
	// Malformed options interleaved at position Pos of the option list
	Malformed string `json:"malformed,omitempty"`
	MalPos    int    `json:"malpos,omitempty"`
	// BareUnsat: failing UnsatErr converters return a bare *ErrArgumentUnsatisfied
	BareUnsat bool `json:"bareunsat,omitempty"`
	// Affinity selects the C07 clause ("input" | "conv")
	Affinity string `json:"affinity,omitempty"`
	// ArgOrder permutes the option list (nil = inputs then converters)
	ArgOrder []int `json:"argorder,omitempty"`
}

func (s Scenario) String() string {
	var in []string
	for _, i := range s.Inputs {
		in = append(in, i.L.String())
	}
	var cs []string
	for _, c := range s.Convs {
		cs = append(cs, c.String())
	}
	r := fmt.Sprintf("target=%s inputs=[%s] convs=[%s]", s.Target, strings.Join(in, " "), strings.Join(cs, " "))
	if s.Mode != "" {
		r = s.Mode + " " + r
	}
	if s.HasFilter {
		r += fmt.Sprintf(" filter=%v", s.FilterIn)
	}
	if s.FilterOut != 0 {
		r += fmt.Sprintf(" filterout=%d", s.FilterOut)
	}
	if s.Malformed != "" {
		r += fmt.Sprintf(" malformed=%s@%d", s.Malformed, s.MalPos)
	}
	if s.ArgOrder != nil {
		r += fmt.Sprintf(" argorder=%v", s.ArgOrder)
	}
	if s.Affinity != "" {
		r += " affinity=" + s.Affinity
	}
	return r
}

// Invocation is one execution of a synthesised body.
type Invocation struct {
	Func string   `json:"f"`
	Args []ArgObs `json:"args,omitempty"`
}

type ArgObs struct {
	Param Label  `json:"p"`
	Prov  string `json:"v"`
}

func (i Invocation) String() string {
	var a []string
	for _, x := range i.Args {
		a = append(a, x.Param.String()+"="+x.Prov)
	}
	return i.Func + "(" + strings.Join(a, ", ") + ")"
}

// Log is the ordered record of executed bodies (the only thing observed besides
// the library's public results).
type Log struct {
	Inv []Invocation
}

func (l *Log) String() string {
	var r []string
	for _, i := range l.Inv {
		r = append(r, i.String())
	}
	return strings.Join(r, "; ")
}

// Finding is one oracle failure.
type Finding struct {
	Prop   string `json:"property"`
	Clause string `json:"clause"` // short stable identifier of the violated clause
	Msg    string `json:"msg"`
}
