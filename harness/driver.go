package harness

import (
	"bufio"
	"crypto/sha1"
	"encoding/json"
	"fmt"
	"os"
	"os/exec"
	"path/filepath"
	"runtime"
	"sort"
	"strconv"
	"strings"
	"sync"
	"time"

	"github.com/hashicorp/go-argmapper/internal/verifrt"
	"github.com/hashicorp/go-hclog"
)

// Step is one part of a check's plan: a tier explored to an order bound.
type Step struct {
	Tier  string
	Size  int // tier size parameter
	Bound int // order deviations (0 = sorted + reversed)
	// Bound2 additionally explores 2 deviations restricted to the active sites.
	Bound2 bool
}

// Replay is the artefact written for every violation.
type Replay struct {
	Property string          `json:"property"`
	Clause   string          `json:"clause"`
	Msg      string          `json:"msg"`
	Engine   string          `json:"engine"`
	Tier     string          `json:"tier,omitempty"`
	Scenario *Scenario       `json:"scenario,omitempty"`
	Choices  []int           `json:"choices,omitempty"`
	Reverse  bool            `json:"reverse,omitempty"`
	Extra    json.RawMessage `json:"extra,omitempty"`
	Observed string          `json:"observed,omitempty"`
}

// workerMsg is one line of worker output.
type workerMsg struct {
	Kind   string  `json:"k"` // "F" finding, "S" stats, "X" sample
	Replay *Replay `json:"replay,omitempty"`
	Stats  *Stats  `json:"stats,omitempty"`
	Sample string  `json:"sample,omitempty"`
}

// Stats aggregates what a worker (or a whole run) covered.
type Stats struct {
	Scenarios   int            `json:"scenarios"`
	Execs       int            `json:"execs"`
	Points      int            `json:"points"`
	MaxPoints   int            `json:"max_points"`
	Premise     int            `json:"premise"`      // scenarios in which the property's premise held
	Nontrivial  int            `json:"nontrivial"`   // ... and a converter chain ran / the oracle had something to judge
	OutcomeHist map[string]int `json:"outcome_hist"` // "<k> distinct outcomes" -> scenarios
	Classes     map[string]int `json:"classes"`      // outcome class -> executions
	ActiveSites map[string]int `json:"active_sites,omitempty"`
	Sites       map[string]int `json:"sites,omitempty"`
	Grown       map[string]int `json:"grown,omitempty"`
	StepsSeen   int            `json:"steps_seen"`
	ActiveSeen  int            `json:"active_seen"`
	BuildErrs   int            `json:"build_errs"`
	Findings    int            `json:"findings"`
}

func newStats() *Stats {
	return &Stats{OutcomeHist: map[string]int{}, Classes: map[string]int{}, ActiveSites: map[string]int{}, Sites: map[string]int{}, Grown: map[string]int{}}
}

func (a *Stats) merge(b *Stats) {
	a.Scenarios += b.Scenarios
	a.Execs += b.Execs
	a.Points += b.Points
	if b.MaxPoints > a.MaxPoints {
		a.MaxPoints = b.MaxPoints
	}
	a.Premise += b.Premise
	a.Nontrivial += b.Nontrivial
	for k, v := range b.OutcomeHist {
		a.OutcomeHist[k] += v
	}
	for k, v := range b.Classes {
		a.Classes[k] += v
	}
	for k, v := range b.ActiveSites {
		a.ActiveSites[k] += v
	}
	for k, v := range b.Sites {
		a.Sites[k] += v
	}
	for k, v := range b.Grown {
		a.Grown[k] += v
	}
	if b.StepsSeen > a.StepsSeen {
		a.StepsSeen = b.StepsSeen
	}
	if b.ActiveSeen > a.ActiveSeen {
		a.ActiveSeen = b.ActiveSeen
	}
	a.BuildErrs += b.BuildErrs
	a.Findings += b.Findings
}

// Budgets (deterministic): generous enough that no legitimate resolution within the
// alphabet comes near (the high-water marks are reported in the evidence).
const (
	maxActive = 48
	maxSteps  = 2_000_000
)

func Init() {
	hclog.L().SetLevel(hclog.Error)
	hclog.DefaultOptions.Level = hclog.Error
	verifrt.MaxActive = maxActive
	verifrt.MaxSteps = maxSteps
}

// premise reports whether the property's premise holds for the scenario (so that the
// oracle is not vacuous) and whether this execution is non-trivial for it.
func premise(prop string, s Scenario, f facts) bool {
	switch prop {
	case "C02":
		return !f.allW
	case "C03":
		if len(s.Target.In) == 0 {
			return false
		}
		for _, p := range s.Target.In {
			if !exactKey(p, s.Inputs) {
				return false
			}
		}
		return true
	case "C04":
		return f.anyFails
	case "C05":
		return wellBehavedConvs(s, f)
	case "C13":
		for _, p := range s.Target.In {
			if hopeless(p, s, Env) {
				return true
			}
		}
		return false
	}
	return true
}

// ExploreScenario explores one scenario to the step's bound and returns the first
// finding per clause.
func ExploreScenario(prop string, s Scenario, st Step, stats *Stats, emitFinding func(Replay)) {
	props := map[string]bool{prop: true}
	f := analyse(s)
	prem := premise(prop, s, f)
	stats.Scenarios++
	if prem {
		stats.Premise++
	}
	seenClause := map[string]bool{}
	outcomes := map[string]bool{}
	classes := map[string][]int{} // outcome class -> witness choices
	classRev := map[string]bool{}
	nontrivial := false
	var cur Outcome
	baseKey := ""
	activeSites := map[string]bool{}
	handle := func(choices []int, reverse bool, pts []point) {
		o := cur
		key := o.Key()
		if !reverse && len(choices) > 0 || reverse {
			// attribute observation changes to the deviating site (bound-1 pass)
		}
		if baseKey == "" && !reverse {
			baseKey = key
		}
		if !reverse && key != baseKey {
			for i, c := range choices {
				if c != 0 && i < len(pts) {
					activeSites[pts[i].site] = true
				}
			}
		}
		outcomes[key] = true
		cl := o.Class()
		stats.Classes[cl]++
		if _, ok := classes[cl]; !ok {
			classes[cl] = trimZeros(choices)
			classRev[cl] = reverse
		}
		if o.BuildErr != "" {
			stats.BuildErrs++
		}
		if len(o.Log.Inv) >= 2 || (prem && (o.Err != nil || len(o.Log.Inv) >= 1)) {
			nontrivial = nontrivial || prem
		}
		var fds []Finding
		if s.Mode == "redefine" {
			fds = CheckRedef(props, s, o, len(trimZeros(choices)) == 0)
		} else if s.Mode == "convdiff" {
			fds = CheckConv(props, s, o)
		} else {
			fds = CheckExec(props, s, o)
		}
		for _, fd := range fds {
			k := fd.Clause
			if seenClause[k] {
				continue
			}
			seenClause[k] = true
			sc := s
			emitFinding(Replay{Property: fd.Prop, Clause: fd.Clause, Msg: fd.Msg, Engine: "order", Tier: st.Tier,
				Scenario: &sc, Choices: trimZeros(choices), Reverse: reverse, Observed: key})
		}
	}
	e := &OrderExplorer{Bound: st.Bound, Run: func() { cur = runAny(s) }, Visit: handle, Sites: map[string]bool{}}
	e.Explore()
	stats.Execs += e.Execs
	stats.Points += e.Points
	if e.MaxPoints > stats.MaxPoints {
		stats.MaxPoints = e.MaxPoints
	}
	if st.Bound2 {
		static := func(site string) bool {
			if activeSites[site] {
				return true
			}
			for _, p := range []string{"Graph.Dijkstra#", "Graph.Vertices#", "Graph.OutEdges#", "Graph.InEdges#", "Graph.dfs#", "argBuilder.graph#"} {
				if strings.HasPrefix(site, p) {
					return true
				}
			}
			return false
		}
		e2 := &OrderExplorer{Bound: 2, SiteFilter: static, Run: func() { cur = runAny(s) }, Visit: handle}
		e2.explore(nil, 0)
		stats.Execs += e2.Execs
		stats.Points += e2.Points
	}
	for site := range e.Sites {
		stats.Sites[site]++
	}
	for site := range activeSites {
		stats.ActiveSites[site]++
	}
	// C05: outcome class stable over all explored orders on well-behaved converter sets
	if prop == "C05" && wellBehavedConvs(s, f) && !f.anyFails && len(classes) > 1 {
		var cls []string
		for c := range classes {
			cls = append(cls, c)
		}
		sort.Strings(cls)
		// witness: the first non-majority class found; report with the choices of the second class
		w := cls[0]
		if len(classes[w]) == 0 && !classRev[w] && len(cls) > 1 {
			w = cls[1]
		}
		sc := s
		emitFinding(Replay{Property: "C05", Clause: "unstable", Msg: "outcome class varies with iteration order: " + strings.Join(cls, " vs "),
			Engine: "order", Tier: st.Tier, Scenario: &sc, Choices: classes[w], Reverse: classRev[w], Observed: "class=" + w})
	}
	stats.OutcomeHist[strconv.Itoa(len(outcomes))]++
	if nontrivial {
		stats.Nontrivial++
	}
}

// trimZeros drops trailing default choices (a replay continues with choice 0).
func trimZeros(c []int) []int {
	n := len(c)
	for n > 0 && c[n-1] == 0 {
		n--
	}
	return append([]int{}, c[:n]...)
}

// runAny dispatches on the scenario mode.
func runAny(s Scenario) Outcome {
	switch s.Mode {
	case "redefine":
		return RunRedefine(s)
	case "convdiff":
		return RunConvDiff(s)
	}
	return RunScenario(s)
}

// ---------------------------------------------------------------- worker side

// Worker runs shard k of K of the given step, starting at scenario index start.
func Worker(prop string, st Step, k, K, start, seed int, curFile string, out *bufio.Writer) {
	Init()
	stats := newStats()
	enc := json.NewEncoder(out)
	cf, _ := os.OpenFile(curFile, os.O_CREATE|os.O_RDWR|os.O_TRUNC, 0644)
	defer cf.Close()
	idx := -1
	nf := 0
	samples := 0
	if ct, ok := CaseTiers[st.Tier]; ok {
		if strings.HasPrefix(st.Tier, "graph-") {
			// a legitimate graph operation on <= 5 vertices takes a few hundred steps
			verifrt.MaxSteps = 50000
		}
		ct.Run(st, func(i int) bool {
			if (i+seed)%K != k || i < start {
				return false
			}
			if nf >= maxFindingsPerWorker {
				return false // the check has failed many times over: stop exploring
			}
			cf.WriteAt([]byte(fmt.Sprintf("%-12d", i)), 0)
			return true
		}, stats, func(r Replay) {
			nf++
			stats.Findings++
			if nf <= 40 {
				enc.Encode(workerMsg{Kind: "F", Replay: &r})
			}
		})
		for _, smp := range caseSamples {
			enc.Encode(workerMsg{Kind: "X", Sample: smp})
		}
		stats.StepsSeen = verifrt.StepsSeen
		stats.ActiveSeen = verifrt.ActiveSeen
		enc.Encode(workerMsg{Kind: "S", Stats: stats})
		out.Flush()
		return
	}
	Tiers[st.Tier].Gen(st.Size, func(s Scenario) {
		idx++
		if (idx+seed)%K != k || idx < start {
			return
		}
		if nf >= maxFindingsPerWorker {
			return // the check has failed many times over: stop exploring
		}
		cf.WriteAt([]byte(fmt.Sprintf("%-12d", idx)), 0)
		ExploreScenario(prop, s, st, stats, func(r Replay) {
			nf++
			stats.Findings++
			if nf <= 40 {
				confirm(&r)
				enc.Encode(workerMsg{Kind: "F", Replay: &r})
			}
		})
		if samples < 2 && idx%97 == k {
			samples++
			enc.Encode(workerMsg{Kind: "X", Sample: s.String()})
		}
	})
	if nf >= maxFindingsPerWorker {
		stats.Classes["early_stop_shards"]++
	}
	stats.StepsSeen = verifrt.StepsSeen
	stats.ActiveSeen = verifrt.ActiveSeen
	for k, v := range verifrt.Grown {
		stats.Grown[k] += v
	}
	enc.Encode(workerMsg{Kind: "S", Stats: stats})
	out.Flush()
}

// maxFindingsPerWorker: once a shard has produced this many findings the verdict is
// settled; the remaining cases of the shard are skipped (reported as early_stop).
const maxFindingsPerWorker = 200

// caseSamples collects a few written-out cases of custom engines (evidence samples).
var caseSamples []string

func noteSample(mk func() string) {
	if len(caseSamples) < 1 {
		caseSamples = append(caseSamples, mk())
	}
}

// confirm replays a finding twice and requires identical observations (a divergence
// is a harness error, never a violation).
func confirm(r *Replay) {
	for i := 0; i < 2; i++ {
		var o Outcome
		OrderRun(r.Choices, r.Reverse, nil, func() { o = runAny(*r.Scenario) })
		if r.Clause == "unstable" {
			if "class="+o.Class() != r.Observed {
				panic(HarnessPanic{"replay of an instability witness observed " + o.Class() + " instead of " + r.Observed})
			}
			continue
		}
		if o.Key() != r.Observed {
			panic(HarnessPanic{fmt.Sprintf("replay not deterministic for %s: %q vs %q", r.Scenario, o.Key(), r.Observed)})
		}
	}
}

// ---------------------------------------------------------------- parent side

// RunResult is what a check run produced.
type RunResult struct {
	Stats     *Stats
	Findings  []Replay
	Samples   []string
	Crashes   int
	RaceCases int
}

// nthScenario regenerates scenario idx of a tier.
func nthScenario(st Step, idx int) *Scenario {
	var res *Scenario
	if _, ok := Tiers[st.Tier]; !ok {
		return nil
	}
	i := -1
	Tiers[st.Tier].Gen(st.Size, func(s Scenario) {
		i++
		if i == idx {
			sc := s
			res = &sc
		}
	})
	return res
}

// RunStep shards a step over worker subprocesses (self-exec) and aggregates.
func RunStep(self, prop string, stepIdx int, mode string, st Step, tmp string, res *RunResult) error {
	K := runtime.NumCPU()
	if v := os.Getenv("VERIF_WORKERS"); v != "" {
		K, _ = strconv.Atoi(v)
	}
	seed, _ := strconv.Atoi(os.Getenv("VERIF_SEED"))
	if seed < 0 {
		seed = -seed
	}
	var mu sync.Mutex
	var wg sync.WaitGroup
	var firstErr error
	for k := 0; k < K; k++ {
		wg.Add(1)
		go func(k int) {
			defer wg.Done()
			start := 0
			for {
				curf := filepath.Join(tmp, fmt.Sprintf("cur.%s.%d.%d", prop, stepIdx, k))
				cmd := exec.Command(self, "worker", prop, mode, strconv.Itoa(stepIdx), strconv.Itoa(k), strconv.Itoa(K), strconv.Itoa(start), strconv.Itoa(seed), curf)
				cmd.Env = append(os.Environ(), "GOMAXPROCS=1")
				var stderr strings.Builder
				cmd.Stderr = &stderr
				outp, err := cmd.Output()
				mu.Lock()
				gotStats := false
				sc := bufio.NewScanner(strings.NewReader(string(outp)))
				sc.Buffer(make([]byte, 1<<20), 1<<26)
				for sc.Scan() {
					var m workerMsg
					if json.Unmarshal(sc.Bytes(), &m) != nil {
						continue
					}
					switch m.Kind {
					case "F":
						res.Findings = append(res.Findings, *m.Replay)
					case "S":
						res.Stats.merge(m.Stats)
						gotStats = true
					case "X":
						if len(res.Samples) < 12 {
							res.Samples = append(res.Samples, m.Sample)
						}
					}
				}
				mu.Unlock()
				if err == nil && gotStats {
					return
				}
				if ee, ok := err.(*exec.ExitError); ok && ee.ExitCode() == 2 {
					mu.Lock()
					if firstErr == nil {
						firstErr = fmt.Errorf("worker %d harness error: %s", k, lastLines(stderr.String(), 6))
					}
					mu.Unlock()
					return
				}
				// the worker died (stack exhaustion, fatal error, out of memory): attribute
				// it to the scenario it announced, record a C06 violation, resume after it.
				b, rerr := os.ReadFile(curf)
				if rerr != nil {
					mu.Lock()
					if firstErr == nil {
						firstErr = fmt.Errorf("worker %d died without announcing a scenario: %v: %s", k, err, lastLines(stderr.String(), 6))
					}
					mu.Unlock()
					return
				}
				idx, _ := strconv.Atoi(strings.TrimSpace(string(b)))
				mu.Lock()
				res.Crashes++
				res.Stats.Scenarios++
				if prop == "C06" || prop == "C02" {
					clause := "process-death"
					if prop == "C02" {
						clause = "no-error"
					}
					res.Findings = append(res.Findings, Replay{Property: prop, Clause: clause, Engine: "order", Tier: st.Tier,
						Msg: "worker process died while running this scenario: " + lastLines(stderr.String(), 2), Scenario: nthScenario(st, idx)})
				}
				mu.Unlock()
				start = idx + 1
			}
		}(k)
	}
	wg.Wait()
	return firstErr
}

func lastLines(s string, n int) string {
	ls := strings.Split(strings.TrimSpace(s), "\n")
	// the first lines of a Go crash are the informative ones
	if len(ls) > n {
		ls = ls[:n]
	}
	return strings.Join(ls, " | ")
}

// ---------------------------------------------------------------- evidence & verdict

type Evidence struct {
	PropertyID  string                 `json:"property_id"`
	Tier        string                 `json:"tier"`
	Seed        int                    `json:"seed"`
	Level       string                 `json:"level"`
	Coverage    map[string]interface{} `json:"coverage"`
	Assumptions []string               `json:"assumptions"`
	WallS       float64                `json:"wall_s"`
	Violations  int                    `json:"violations"`
}

func WriteEvidence(dir string, ev Evidence) error {
	os.MkdirAll(dir, 0755)
	b, err := json.MarshalIndent(ev, "", " ")
	if err != nil {
		return err
	}
	tmp := filepath.Join(dir, "."+ev.PropertyID+".json.tmp")
	if err := os.WriteFile(tmp, b, 0644); err != nil {
		return err
	}
	return os.Rename(tmp, filepath.Join(dir, ev.PropertyID+".json"))
}

// WriteReplay stores a replay artefact and returns its path (relative to /verif).
func WriteReplay(verifDir string, r Replay) string {
	b, _ := json.MarshalIndent(r, "", " ")
	h := sha1.Sum(b)
	name := fmt.Sprintf("%s-%x.json", r.Property, h[:5])
	dir := filepath.Join(verifDir, "replays")
	os.MkdirAll(dir, 0755)
	os.WriteFile(filepath.Join(dir, name), b, 0644)
	return filepath.Join("replays", name)
}

var startTime = time.Now()
