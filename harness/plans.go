package harness

// Plans: per property and mode, the tiers explored and to which order bound.
var Plans = map[string]map[string][]Step{
	"C01": {
		"quick": {
			{Tier: "direct", Bound: 1},
			{Tier: "conv1", Size: 1, Bound: 1},
			{Tier: "chains3x2", Bound: 1},
		},
		"thorough": {
			{Tier: "direct", Bound: 1, Bound2: true},
			{Tier: "conv1", Size: 2, Bound: 1},
			{Tier: "conv2", Bound: 0},
			{Tier: "chains3x2", Bound: 1, Bound2: true},
			{Tier: "chains4x2", Bound: 1},
			{Tier: "chains3x3", Bound: 0},
		},
	},
}

func init() {
	callQuick := []Step{
		{Tier: "direct", Bound: 1},
		{Tier: "conv1", Size: 0, Bound: 1},
		{Tier: "conv1", Size: 1, Bound: 0},
		{Tier: "chains3x2", Bound: 1},
		{Tier: "forms", Bound: 0},
		{Tier: "repeats", Bound: 1},
		{Tier: "iface", Bound: 0},
		{Tier: "layered5", Size: 0, Bound: 0},
		{Tier: "built1", Bound: 0},
		{Tier: "subconv", Bound: 0},
		{Tier: "multiout", Bound: 0},
		{Tier: "subchains", Bound: 0},
	}
	callThorough := []Step{
		{Tier: "direct", Bound: 1, Bound2: true},
		{Tier: "conv1", Size: 2, Bound: 1},
		{Tier: "conv2", Bound: 0},
		{Tier: "conv1", Size: 0, Bound: 1, Bound2: true},
		{Tier: "chains3x2", Bound: 1},
		{Tier: "chains4x2", Bound: 1},
		{Tier: "chains3x3", Bound: 0},
		{Tier: "forms", Bound: 1},
		{Tier: "repeats", Bound: 1, Bound2: true},
		{Tier: "iface", Bound: 1},
		{Tier: "layered5", Size: 1, Bound: 0},
		{Tier: "layered5", Size: 0, Bound: 1},
		{Tier: "built1", Bound: 1},
		{Tier: "subconv", Bound: 1},
		{Tier: "multiout", Bound: 1},
		{Tier: "subchains", Bound: 1},
	}
	for _, p := range []string{"C01", "C02", "C05", "C13"} {
		Plans[p] = map[string][]Step{"quick": callQuick, "thorough": callThorough}
	}
	Plans["C05"] = map[string][]Step{
		"quick":    append(append([]Step{}, callQuick...), Step{Tier: "namedcycle", Bound: 1}),
		"thorough": append(append([]Step{}, callThorough...), Step{Tier: "namedcycle", Bound: 1}),
	}
	for _, p := range []string{"C02", "C13"} {
		Plans[p] = map[string][]Step{
			"quick":    append(append([]Step{}, callQuick...), Step{Tier: "subdup", Bound: 1}),
			"thorough": append(append([]Step{}, callThorough...), Step{Tier: "subdup", Bound: 1, Bound2: true}),
		}
	}
	Plans["C01"] = map[string][]Step{
		"quick":    append(append([]Step{}, callQuick...), Step{Tier: "illformed", Bound: 1}, Step{Tier: "subdup", Bound: 1}),
		"thorough": append(append([]Step{}, callThorough...), Step{Tier: "illformed", Bound: 1, Bound2: true}, Step{Tier: "subdup", Bound: 1, Bound2: true}),
	}
	Plans["C06"] = map[string][]Step{
		"quick":    append(append([]Step{}, callQuick...), Step{Tier: "malformed", Bound: 0}, Step{Tier: "fails3x2", Bound: 0}, Step{Tier: "redef", Size: 0, Bound: 0}, Step{Tier: "redef", Size: 1, Bound: 0}, Step{Tier: "redefptr", Bound: 0}),
		"thorough": append(append([]Step{}, callThorough...), Step{Tier: "malformed", Bound: 1}, Step{Tier: "fails3x3", Bound: 0}, Step{Tier: "failsM3x2", Bound: 0}, Step{Tier: "exact", Size: 0, Bound: 0}, Step{Tier: "redef", Size: 1, Bound: 0}, Step{Tier: "redef", Size: 0, Bound: 1}, Step{Tier: "redefptr", Bound: 1}),
	}
	Plans["C03"] = map[string][]Step{
		"quick":    {{Tier: "exact", Size: 0, Bound: 1}},
		"thorough": {{Tier: "exact", Size: 1, Bound: 1}, {Tier: "exact", Size: 2, Bound: 0}},
	}
	Plans["C04"] = map[string][]Step{
		"quick":    {{Tier: "fails3x2", Bound: 1}, {Tier: "failsM3x2", Bound: 0}, {Tier: "failsnil3x2", Bound: 0}, {Tier: "failsunsat3x2", Size: 7, Bound: 0}, {Tier: "failsMunsat3x2", Size: 9, Bound: 0}, {Tier: "failsforms", Bound: 1}},
		"thorough": {{Tier: "fails3x2", Bound: 1}, {Tier: "fails3x3", Bound: 1}, {Tier: "failsM3x2", Bound: 1}, {Tier: "failsnil3x2", Bound: 1}, {Tier: "failsunsat3x2", Size: 7, Bound: 1}, {Tier: "failsMunsat3x2", Size: 9, Bound: 1}, {Tier: "failsMunsat3x2", Size: 7, Bound: 0}, {Tier: "failsforms", Bound: 1, Bound2: true}},
	}
}

func init() {
	Plans["C08"] = map[string][]Step{
		"quick":    {{Tier: "redef", Size: 0, Bound: 1}, {Tier: "redef", Size: 1, Bound: 0}, {Tier: "redefptr", Bound: 0}, {Tier: "alias-C08", Size: 4}, {Tier: "redefzero", Size: 1, Bound: 0}, {Tier: "redefprov", Size: 1, Bound: 0}},
		"thorough": {{Tier: "redef", Size: 0, Bound: 1}, {Tier: "redef", Size: 1, Bound: 1}, {Tier: "redef", Size: 2, Bound: 0}, {Tier: "redefptr", Bound: 1}, {Tier: "alias-C08", Size: 5}, {Tier: "redefzero", Size: 1, Bound: 0}, {Tier: "redefprov", Size: 1, Bound: 0}},
	}
}
