package harness

import (
	"errors"
	"fmt"
	"reflect"
	"strings"

	am "github.com/hashicorp/go-argmapper"
	"github.com/hashicorp/go-argmapper/internal/verifrt"
)

// World is the per-execution context of synthesised functions.
type World struct {
	Log    *Log
	Funcs  map[string]*am.Func
	Errs   map[string]error // the error value a failing function returns (identity matters)
	Counts map[string]int   // body executions per function id
	Yield  bool             // bodies are scheduling points (E4)
	Tag    func() string    // optional per-invocation tag appended to the function id in the log
	// Memo marks function ids whose *body* memoizes its first result (the reference
	// model of FuncOnce: an ordinary function that runs its computation once).
	// BareUnsat: UnsatErr functions return the *ErrArgumentUnsatisfied itself, not a wrapper
	BareUnsat bool
	// Quiet: bodies keep no shared harness state (free-running race pass)
	Quiet     bool
	Memo      map[string]bool
	memoCache map[string][]reflect.Value
}

func NewWorld() *World {
	return &World{Log: &Log{}, Funcs: map[string]*am.Func{}, Errs: map[string]error{}, Counts: map[string]int{}, Memo: map[string]bool{}}
}

func structOf(ls []Label) reflect.Type {
	sf := []reflect.StructField{{Name: "Struct", Type: markerType, Anonymous: true}}
	for i, l := range ls {
		var tags []string
		tags = append(tags, l.Name)
		if l.Name == "" {
			tags = append(tags, "typeOnly")
		}
		if l.Sub != "" {
			tags = append(tags, "subtype="+l.Sub)
		}
		sf = append(sf, reflect.StructField{
			Name: fmt.Sprintf("F%d", i),
			Type: typeOf(l.T),
			Tag:  reflect.StructTag(fmt.Sprintf(`argmapper:"%s"`, strings.Join(tags, ","))),
		})
	}
	return reflect.StructOf(sf)
}

func sigOf(ls []Label, form Form) []reflect.Type {
	switch form {
	case FormPositional:
		var r []reflect.Type
		for _, l := range ls {
			r = append(r, typeOf(l.T))
		}
		return r
	case FormPtrStruct:
		return []reflect.Type{reflect.PtrTo(structOf(ls))}
	default:
		return []reflect.Type{structOf(ls)}
	}
}

// positionalOK reports whether the label list can be expressed positionally.
func positionalOK(ls []Label) bool {
	for _, l := range ls {
		if l.Name != "" || l.Sub != "" {
			return false
		}
	}
	return true
}

// provOf extracts the provenance term of a carrier value ("" = zero value,
// "<nil>" = nil interface, "<invalid>" = invalid reflect.Value).
func provOf(v reflect.Value) string {
	if !v.IsValid() {
		return "<invalid>"
	}
	for v.Kind() == reflect.Interface || v.Kind() == reflect.Ptr {
		if v.IsNil() {
			return "<nil>"
		}
		v = v.Elem()
	}
	if v.Kind() != reflect.Struct || v.NumField() == 0 || v.Field(0).Kind() != reflect.String {
		return fmt.Sprintf("<%s>", v.Type())
	}
	return v.Field(0).String()
}

func provOfIface(x interface{}) string { return provOf(reflect.ValueOf(x)) }

func mkVal(t int, prov string) reflect.Value {
	switch t {
	case TI, TI2:
		v := reflect.New(typeOf(t)).Elem()
		v.Set(reflect.ValueOf(T3{P: prov}))
		return v
	case TP0, TP1:
		v := reflect.New(carrier[t-TP0])
		v.Elem().Field(0).SetString(prov)
		return v
	case TE:
		return reflect.ValueOf(&myErr{M: prov})
	}
	v := reflect.New(carrier[t]).Elem()
	v.Field(0).SetString(prov)
	return v
}

func (w *World) failErr(id string) error {
	if e, ok := w.Errs[id]; ok {
		return e
	}
	e := errors.New("fail:" + id)
	w.Errs[id] = e
	return e
}

// typedNilErr: a non-nil error interface holding a nil pointer (err != nil is true).
func (w *World) typedNilErr(id string) error {
	var p *myErr
	var e error = p
	w.Errs[id] = e
	return e
}

// unsatErr: an error that wraps an *ErrArgumentUnsatisfied with empty Inputs/Converters.
func (w *World) unsatErr(id string) error {
	if e, ok := w.Errs[id]; ok {
		return e
	}
	inner := &am.ErrArgumentUnsatisfied{Func: w.Funcs[id], Args: []*am.Value{{Name: "inner", Type: typeOf(4)}}}
	var e error = inner // dynamic type exactly *ErrArgumentUnsatisfied (a converter returning another call's Err())
	if !w.BareUnsat {
		e = fmt.Errorf("delegate failed: %w", inner)
	}
	w.Errs[id] = e
	return e
}

func (w *World) record(spec FuncSpec, terms []string) {
	if w.Quiet {
		return
	}
	inv := Invocation{Func: spec.ID}
	if w.Tag != nil {
		inv.Func += w.Tag()
	}
	for i, l := range spec.In {
		inv.Args = append(inv.Args, ArgObs{Param: l, Prov: terms[i]})
	}
	w.Log.Inv = append(w.Log.Inv, inv)
	w.Counts[spec.ID]++
}

func outTerm(spec FuncSpec, i int, terms []string) string {
	return fmt.Sprintf("%s.%d(%s)", spec.ID, i, strings.Join(terms, ","))
}

// Build synthesises the function described by spec and registers it in the world.
func (w *World) Build(spec FuncSpec) (*am.Func, error) {
	var opts []am.Arg
	if spec.Once {
		opts = append(opts, am.FuncOnce())
	}
	var f *am.Func
	var err error
	if spec.Built {
		f, err = w.buildBuilt(spec, opts)
	} else {
		f, err = am.NewFunc(w.rawFunc(spec), opts...)
	}
	if err == nil {
		w.Funcs[spec.ID] = f
	}
	return f, err
}

// rawFunc returns the Go function value (made with reflect.MakeFunc).
func (w *World) rawFunc(spec FuncSpec) interface{} {
	in := sigOf(spec.In, spec.InForm)
	if len(spec.In) == 0 {
		in = nil
	}
	out := sigOf(spec.Out, spec.OutForm)
	if len(spec.Out) == 0 {
		out = nil
	}
	if spec.HasErr {
		out = append(out, errType)
	}
	ft := reflect.FuncOf(in, out, false)
	fn := reflect.MakeFunc(ft, func(args []reflect.Value) []reflect.Value {
		if w.Yield {
			verifrt.Yield("body:" + spec.ID)
		}
		if w.Memo[spec.ID] {
			if c, ok := w.memoCache[spec.ID]; ok {
				return c
			}
		}
		var terms []string
		for i := range spec.In {
			var v reflect.Value
			switch spec.InForm {
			case FormPositional:
				v = args[i]
			case FormPtrStruct:
				if args[0].IsNil() {
					terms = append(terms, "<nilstruct>")
					continue
				}
				v = args[0].Elem().Field(i + 1)
			default:
				v = args[0].Field(i + 1)
			}
			terms = append(terms, provOf(v))
		}
		w.record(spec, terms)
		var res []reflect.Value
		mk := func(i int, l Label) reflect.Value {
			if spec.NilIface && (l.T == TI || l.T == TI2) {
				return reflect.Zero(typeOf(l.T)) // a nil interface value
			}
			return mkVal(l.T, outTerm(spec, i, terms))
		}
		if len(spec.Out) > 0 {
			switch spec.OutForm {
			case FormPositional:
				for i, l := range spec.Out {
					res = append(res, mk(i, l))
				}
			default:
				st := reflect.New(structOf(spec.Out)).Elem()
				for i, l := range spec.Out {
					st.Field(i + 1).Set(mk(i, l))
				}
				if spec.OutForm == FormPtrStruct && spec.NilOut {
					// a nil pointer result: the library treats it as all-zero outputs
					res = append(res, reflect.Zero(reflect.PtrTo(structOf(spec.Out))))
				} else if spec.OutForm == FormPtrStruct {
					res = append(res, st.Addr())
				} else {
					res = append(res, st)
				}
			}
		}
		if spec.HasErr {
			if spec.Fails {
				var e error
				switch {
				case spec.TypedNil:
					e = w.typedNilErr(spec.ID)
				case spec.UnsatErr:
					e = w.unsatErr(spec.ID)
				default:
					e = w.failErr(spec.ID)
				}
				res = append(res, reflect.ValueOf(&e).Elem())
			} else {
				res = append(res, reflect.Zero(errType))
			}
		}
		if w.Yield {
			verifrt.Yield("ret:" + spec.ID)
		}
		if w.Memo[spec.ID] {
			if w.memoCache == nil {
				w.memoCache = map[string][]reflect.Value{}
			}
			w.memoCache[spec.ID] = res
		}
		return res
	})
	return fn.Interface()
}

func valuesOf(ls []Label) []am.Value {
	var vs []am.Value
	for _, l := range ls {
		vs = append(vs, am.Value{Name: l.Name, Type: typeOf(l.T), Subtype: l.Sub})
	}
	return vs
}

func (w *World) buildBuilt(spec FuncSpec, opts []am.Arg) (*am.Func, error) {
	inSet, err := am.NewValueSet(valuesOf(spec.In))
	if err != nil {
		return nil, err
	}
	outSet, err := am.NewValueSet(valuesOf(spec.Out))
	if err != nil {
		return nil, err
	}
	return am.BuildFunc(inSet, outSet, func(in, out *am.ValueSet) error {
		if w.Yield {
			verifrt.Yield("body:" + spec.ID)
		}
		vals := in.Values()
		var terms []string
		for i := range spec.In {
			if i < len(vals) {
				terms = append(terms, provOf(vals[i].Value))
			} else {
				terms = append(terms, "<missing>")
			}
		}
		w.record(spec, terms)
		if spec.Fails {
			return w.failErr(spec.ID)
		}
		for i, l := range spec.Out {
			var v *am.Value
			if l.Name != "" {
				v = out.Named(strings.ToLower(l.Name))
			} else {
				v = typedEntry(out, l)
			}
			if v == nil {
				panic(fmt.Sprintf("harness: built output %s not found in set", l))
			}
			v.Value = mkVal(l.T, outTerm(spec, i, terms))
		}
		return nil
	}, opts...)
}

// inputArg supplies a value under a label through the option constructor that
// covers all four kinds.
func inputArg(in Input) am.Arg {
	v := mkVal(in.L.T, in.V).Interface()
	return am.NamedSubtype(in.L.Name, v, in.L.Sub)
}

// typedEntry returns the type-only entry of a value set for a label (TypedSubtype also
// matches named entries of that type and subtype, so the result is checked).
func typedEntry(set *am.ValueSet, l Label) *am.Value {
	for _, p := range []*am.Value{set.TypedSubtype(typeOf(l.T), l.Sub), set.Typed(typeOf(l.T))} {
		if p != nil && p.Name == "" && p.Subtype == l.Sub {
			return p
		}
	}
	return nil
}
