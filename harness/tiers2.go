package harness

import "fmt"

func init() {
	// ---- forms: the same converter graphs in every signature form
	reg("forms", "converter graphs c0:(T1)->T0 [+ c1:(T2)->T1 | c1:(T0,T2)->T1 | c1:()->T1] with target, c0 and c1 in every form: positional / struct / pointer-struct inputs and outputs, BuildFunc-built, ConverterGen-generated", func(size int, emit func(Scenario)) {
		u := func(t int) Label { return Label{"", t, ""} }
		type variant struct {
			inF, outF  Form
			built, gen bool
		}
		var vars []variant
		for _, i := range []Form{FormPositional, FormStruct, FormPtrStruct} {
			for _, o := range []Form{FormPositional, FormStruct, FormPtrStruct} {
				vars = append(vars, variant{inF: i, outF: o})
			}
		}
		vars = append(vars, variant{built: true}, variant{inF: FormPositional, outF: FormPositional, gen: true})
		apply := func(f FuncSpec, v variant) FuncSpec {
			f.InForm, f.OutForm, f.Built, f.Gen = v.inF, v.outF, v.built, v.gen
			if v.built {
				f.InForm, f.OutForm = FormStruct, FormStruct
				f.HasErr = true
			}
			return f
		}
		c0 := FuncSpec{ID: "c0", In: []Label{u(1)}, Out: []Label{u(0)}}
		c1s := []*FuncSpec{nil,
			{ID: "c1", In: []Label{u(2)}, Out: []Label{u(1)}},
			{ID: "c1", In: []Label{u(0), u(2)}, Out: []Label{u(1)}},
			{ID: "c1", In: nil, Out: []Label{u(1)}},
			{ID: "c1", In: []Label{u(2)}, Out: []Label{u(1), u(3)}},
		}
		targets := [][]Label{{u(0)}, {u(0), u(1)}, {u(0), u(3)}}
		inputSets := [][]Label{{u(1)}, {u(2)}, {u(1), u(2)}, {}}
		for _, tin := range targets {
			for _, tf := range []Form{FormPositional, FormStruct, FormPtrStruct} {
				for _, v0 := range vars {
					for _, c1 := range c1s {
						v1s := vars
						if c1 == nil {
							v1s = vars[:1]
						}
						for _, v1 := range v1s {
							for _, ins := range inputSets {
								if c1 != nil && v1.gen && len(c1.In) == 0 {
									continue // a generator keys on the first input type
								}
								s := Scenario{Target: FuncSpec{ID: "tgt", In: tin, InForm: tf, Out: []Label{u(2)}, OutForm: FormPositional}, Inputs: mkInputs(ins)}
								s.Convs = append(s.Convs, apply(c0, v0))
								if c1 != nil {
									s.Convs = append(s.Convs, apply(*c1, v1))
								}
								emit(s)
							}
						}
					}
				}
			}
		}
	})

	// ---- repeats: positional lists repeating a type, results repeating a type,
	// duplicate-type converters, converter with the target's own Go type
	reg("repeats", "positional parameter lists repeating a type (target and converters), positional results repeating a type, duplicate-type converters, a converter with the target's own type", func(size int, emit func(Scenario)) {
		u := func(t int) Label { return Label{"", t, ""} }
		pos := func(id string, in, out []Label) FuncSpec {
			return FuncSpec{ID: id, In: in, Out: out, InForm: FormPositional, OutForm: FormPositional}
		}
		inputSets := [][]Label{{}, {u(0)}, {u(1)}, {u(0), u(1)}, {u(2)}, {{"a", 0, ""}}, {{"a", 0, ""}, {"b", 0, ""}}}
		targets := []FuncSpec{
			pos("tgt", []Label{u(0), u(0)}, nil),
			pos("tgt", []Label{u(0), u(0), u(1)}, nil),
			pos("tgt", []Label{u(0), u(1), u(0)}, []Label{u(2)}),
			pos("tgt", []Label{u(0)}, []Label{u(2)}),
			pos("tgt", []Label{u(0), u(1)}, []Label{u(2), u(2)}),
		}
		convSets := [][]FuncSpec{
			nil,
			{pos("c0", []Label{u(1), u(1)}, []Label{u(0)})},
			{pos("c0", []Label{u(1)}, []Label{u(0), u(0)})},
			{pos("c0", []Label{u(2), u(2)}, []Label{u(0), u(1)})},
			{pos("c0", []Label{u(1)}, []Label{u(0)}), pos("c1", []Label{u(1)}, []Label{u(0)})}, // duplicate type
			{pos("c0", []Label{u(0)}, []Label{u(2)})},                                          // the 4th target's own type
			{pos("c0", []Label{u(0), u(0)}, nil)},                                              // the 1st target's own type, no outputs
			{pos("c0", []Label{u(1), u(1)}, []Label{u(0)}), pos("c1", []Label{u(2)}, []Label{u(1)})},
			{pos("c0", []Label{u(2)}, []Label{u(0), u(1), u(0)})},
		}
		for _, t := range targets {
			for _, cs := range convSets {
				for _, ins := range inputSets {
					emit(Scenario{Target: t, Inputs: mkInputs(ins), Convs: cs})
				}
			}
		}
	})

	// ---- iface: interface-typed parameters and suppliers
	reg("iface", "parameters of type Iface / T3 (named, type-only, subtyped); suppliers T3 (implements Iface) and T2 (does not); converters producing T3 or Iface", func(size int, emit func(Scenario)) {
		params := append(labelsOver([]int{TI}, []string{"", "a"}, []string{"", "x"}), labelsOver([]int{3}, []string{"", "a"}, []string{"", "x"})...)
		ins := labelsOver([]int{3, 2}, []string{"", "a", "b"}, []string{"", "x"})
		convs := []*FuncSpec{nil,
			{ID: "c0", In: []Label{{"", 2, ""}}, Out: []Label{{"", 3, ""}}},
			{ID: "c0", In: []Label{{"", 2, ""}}, Out: []Label{{"", TI, ""}}},
			{ID: "c0", In: []Label{{"a", 2, ""}}, Out: []Label{{"a", 3, ""}}},
			{ID: "c0", In: []Label{{"", 2, ""}}, Out: []Label{{"a", TI, ""}}},
			{ID: "c0", In: []Label{{"", TI, ""}}, Out: []Label{{"", 0, ""}}},
			// a converter declared to return a *different* interface that implements the
			// required one (no concrete implementation otherwise available)
			{ID: "c0", In: []Label{{"", 2, ""}}, Out: []Label{{"", TI2, ""}}},
			{ID: "c0", In: []Label{{"a", 2, ""}}, Out: []Label{{"a", TI2, ""}}},
			// converters whose interface-typed result is a nil interface value
			{ID: "c0", In: []Label{{"", 2, ""}}, Out: []Label{{"", TI, ""}}, NilIface: true, HasErr: true},
			{ID: "c0", In: []Label{{"", 2, ""}}, Out: []Label{{"", TI2, ""}}, NilIface: true},
		}
		for _, p := range params {
			for _, in := range subsetsUpTo(len(ins), 2) {
				if !inputsDistinct(pick(ins, in)) {
					continue
				}
				for _, c := range convs {
					s := Scenario{Target: FuncSpec{ID: "tgt", In: []Label{p}, Out: []Label{{"", 1, ""}}, OutForm: FormPositional}, Inputs: mkInputs(pick(ins, in))}
					if c != nil {
						cc := *c
						cc.InForm, cc.OutForm = formFor(cc.In), formFor(cc.Out)
						s.Convs = []FuncSpec{cc}
						if c.In[0].T == TI {
							// consumer of Iface feeding a second parameter
							s.Target.In = []Label{p, {"", 0, ""}}
						}
					}
					emit(s)
				}
			}
		}
	})

	// ---- exact (C03): exact-key inputs + distractors
	reg("exact", "targets of 1-2 parameters over 2 types and all label kinds; the exact-key input for every parameter (a type-only parameter's exact input named or not) + distractor inputs + distractor converters (providers, converters producing a parameter's label, same-name converters)", func(size int, emit func(Scenario)) {
		ls := labelsOver([]int{0, 1}, []string{"", "a", "b"}, []string{"", "x"})
		maxDI, maxDC := 1, 1
		if size >= 1 {
			maxDC = 2
		}
		if size >= 2 {
			maxDI = 2
		}
		for _, tp := range subsetsUpTo(len(ls), 2) {
			params := pick(ls, tp)
			if len(tp) == 0 || !wellFormed(params) {
				continue
			}
			if size == 0 && len(tp) == 2 && (params[0].Sub != "" && params[1].Sub != "") {
				continue
			}
			// exact input variants: for type-only parameters, unnamed or named "c"
			var exactSets [][]Label
			var rec func(i int, cur []Label)
			rec = func(i int, cur []Label) {
				if i == len(params) {
					exactSets = append(exactSets, append([]Label{}, cur...))
					return
				}
				p := params[i]
				rec(i+1, append(cur, p))
				if p.Name == "" {
					rec(i+1, append(cur, Label{"c", p.T, p.Sub}))
				}
			}
			rec(0, nil)
			// distractor converter menu
			var menu []FuncSpec
			for _, p := range params {
				other := 1 - p.T
				srcs := [][]Label{nil, {{"", other, ""}}, {{p.Name, other, ""}}, {{p.Name, p.T, "y"}}}
				if p.Name == "" {
					srcs = [][]Label{nil, {{"", other, ""}}, {{"a", other, ""}}}
				}
				for _, src := range srcs {
					menu = append(menu, FuncSpec{In: src, Out: []Label{p}, InForm: formFor(src), OutForm: formFor([]Label{p})})
				}
				// a value of the parameter's type under the *other* kind of label can feed it
				// too: a named value for a type-only parameter, a type-only value for a named one
				alt := Label{"c", p.T, p.Sub}
				if p.Name != "" {
					alt = Label{"", p.T, p.Sub}
				}
				for _, src := range [][]Label{nil, {{"", other, ""}}, {{"a", other, ""}}} {
					menu = append(menu, FuncSpec{In: src, Out: []Label{alt}, InForm: formFor(src), OutForm: formFor([]Label{alt})})
				}
			}
			for _, ex := range exactSets {
				if !inputsDistinct(ex) {
					continue
				}
				for _, di := range subsetsUpTo(len(ls), maxDI) {
					all := append(append([]Label{}, ex...), pick(ls, di)...)
					if !inputsDistinct(all) {
						continue
					}
					for _, dc := range subsetsUpTo(len(menu), maxDC) {
						var cl []FuncSpec
						for k, ci := range dc {
							c := menu[ci]
							c.ID = fmt.Sprintf("c%d", k)
							cl = append(cl, c)
						}
						if !distinctFuncTypes(cl) {
							continue
						}
						t := mkTarget(params)
						t.InForm = FormStruct
						emit(Scenario{Target: t, Inputs: mkInputs(all), Convs: cl})
					}
				}
			}
		}
	})

	// ---- malformed options at every position of otherwise valid option lists
	reg("malformed", "nil option, nil values, non-function and nil converters, nil *Func, generator returning nil / an error, at every position of otherwise valid option lists", func(size int, emit func(Scenario)) {
		u := func(t int) Label { return Label{"", t, ""} }
		bases := []Scenario{
			{Target: mkTarget([]Label{u(0)}), Inputs: mkInputs([]Label{u(0)})},
			{Target: mkTarget([]Label{{"a", 0, ""}}), Inputs: mkInputs([]Label{{"a", 0, ""}})},
			{Target: mkTarget([]Label{{"a", 0, ""}}), Inputs: mkInputs([]Label{{"a", 1, ""}}), Convs: []FuncSpec{{ID: "c0", In: []Label{u(1)}, Out: []Label{u(0)}, InForm: FormPositional, OutForm: FormPositional}}},
			{Target: mkTarget([]Label{u(0), u(1)}), Inputs: mkInputs([]Label{u(2)}), Convs: []FuncSpec{
				{ID: "c0", In: []Label{u(1)}, Out: []Label{u(0)}, InForm: FormPositional, OutForm: FormPositional},
				{ID: "c1", In: []Label{u(2)}, Out: []Label{u(1)}, InForm: FormPositional, OutForm: FormPositional}}},
			{Target: mkTarget([]Label{u(0)}), Inputs: nil},
			{Target: mkTarget([]Label{{"a", 0, "x"}}), Inputs: mkInputs([]Label{{"", 0, "x"}, {"b", 0, ""}})},
			{Target: mkTarget(nil), Inputs: nil},
		}
		for _, b := range bases {
			n := len(b.Inputs) + len(b.Convs)
			for _, kind := range MalformedKinds {
				for pos := 0; pos <= n; pos++ {
					s := b
					s.Malformed, s.MalPos = kind, pos
					if size != 1 {
						emit(s)
					}
					for _, mode := range []string{"convdiff", "redefine"} {
						if len(b.Target.In) == 1 && b.Target.In[0].Name == "" && b.Target.In[0].Sub == "" || mode == "redefine" {
							s2 := s
							s2.Mode = mode
							if size == 1 && mode != "convdiff" {
								continue // size 1: only the Convert-differential scenarios (C10)
							}
							emit(s2)
						}
					}
				}
			}
		}
	})
}
