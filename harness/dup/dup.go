// Package harness (import path .../harness/dup) declares carrier types whose printed
// names (reflect.Type.String) coincide with those of the main harness package: two
// distinct Go types that print as "harness.T0". They are only ever used in *separate*
// calls (within one call the library identifies vertices by printed type name).
package harness

type T0 struct{ P string }
type T1 struct{ P string }
