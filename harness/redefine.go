package harness

import (
	"errors"
	"fmt"
	"strings"

	am "github.com/hashicorp/go-argmapper"
	"github.com/hashicorp/go-argmapper/internal/verifrt"
)

// RedefObs is what a Redefine scenario observed beyond the common Outcome.
type RedefObs struct {
	RedefErr    error
	RanDuring   int     // bodies executed during Redefine (must be 0: C09)
	Inputs      []Label // declared inputs of the redefined function
	NewInputs   []Input // the fresh values supplied for them
	CallErr     error
	CallUnsat   bool
	CallResults []string
	CallLog     []Invocation
	DirectKey   string // outcome of f.Call(original args + new values)
	RedefKey    string // the same projection of the redefined call
}

func (s Scenario) filterAllows(t int) bool {
	if !s.HasFilter {
		return true
	}
	for _, i := range s.FilterIn {
		if i == t {
			return true
		}
	}
	return false
}

func filterArgs(s Scenario) []am.Arg {
	var args []am.Arg
	if s.HasFilter {
		var fs []am.FilterFunc
		for _, i := range s.FilterIn {
			fs = append(fs, am.FilterType(typeOf(i)))
		}
		// FilterAnd(allowed, everything) == allowed; an And that behaved like Or would let
		// every type through
		var all []am.FilterFunc
		for _, i := range []int{0, 1, 2, 3, 4, TP0, TP1, TE, TI2, TI} {
			all = append(all, am.FilterType(typeOf(i)))
		}
		args = append(args, am.FilterInput(am.FilterAnd(am.FilterOr(fs...), am.FilterOr(all...))))
	}
	switch s.FilterOut {
	case 1:
		args = append(args, am.FilterOutput(func(am.Value) bool { return true }))
	case 2:
		args = append(args, am.FilterOutput(func(am.Value) bool { return false }))
	}
	return args
}

// RunRedefine: Redefine, then call the redefined function with a fresh value per
// declared input, then (for the differential clause) the original function with the
// original arguments plus those values.
func RunRedefine(s Scenario) (o Outcome) {
	w := NewWorld()
	o.World = w
	o.Log = w.Log
	o.Redef = &RedefObs{}
	r := o.Redef
	verifrt.ResetBudget()
	defer guard(&o)
	target, args, berr := buildArgs(s, w)
	if berr != "" {
		o.BuildErr = berr
		return
	}
	rargs := append(append([]am.Arg{}, args...), filterArgs(s)...)
	rf, err := target.Redefine(rargs...)
	r.RedefErr = err
	r.RanDuring = len(w.Log.Inv)
	if err != nil {
		o.Err = err
		o.classifyErr()
		return
	}
	var callArgs []am.Arg
	for i, v := range rf.Input().Values() {
		l := Label{v.Name, typeIndex(v.Type), v.Subtype}
		r.Inputs = append(r.Inputs, l)
		if l.T < 0 {
			continue
		}
		in := Input{L: l, V: fmt.Sprintf("new%d", i)}
		r.NewInputs = append(r.NewInputs, in)
		callArgs = append(callArgs, inputArg(in))
	}
	mark := len(w.Log.Inv)
	res := rf.Call(callArgs...)
	r.CallErr = res.Err()
	r.CallLog = append([]Invocation{}, w.Log.Inv[mark:]...)
	if r.CallErr != nil {
		var ua *am.ErrArgumentUnsatisfied
		r.CallUnsat = errors.As(r.CallErr, &ua)
	} else {
		for i := 0; i < res.Len(); i++ {
			r.CallResults = append(r.CallResults, provOfIface(res.Out(i)))
		}
	}
	r.RedefKey = fmt.Sprintf("%s|%v|%s", errKey(w, r.CallErr), r.CallResults, invString(r.CallLog))
	o.Err = r.CallErr
	o.classifyErr()
	o.Results = r.CallResults

	// differential: the original function, original arguments plus the new values
	// (options in the order the redefined function passes them: named, then type-only)
	if !PureOrder {
		return
	}
	WithPureChooser(func() { r.DirectKey = directCall(s, r) })
	return
}

// directCall: the original function with the original arguments plus the new values,
// under the same global order policy, outside the explored choice sequence.
func directCall(s Scenario, r *RedefObs) string {
	w2 := NewWorld()
	t2, args2, _ := buildArgs(s, w2)
	args2 = append(args2, filterArgs(s)...)
	for _, in := range r.NewInputs {
		if in.L.Name != "" {
			args2 = append(args2, inputArg(in))
		}
	}
	for _, in := range r.NewInputs {
		if in.L.Name == "" {
			args2 = append(args2, inputArg(in))
		}
	}
	res2 := t2.Call(args2...)
	var results2 []string
	if res2.Err() == nil {
		for i := 0; i < res2.Len(); i++ {
			results2 = append(results2, provOfIface(res2.Out(i)))
		}
	}
	return fmt.Sprintf("%s|%v|%s", errKey(w2, res2.Err()), results2, invString(w2.Log.Inv))
}

func errKey(w *World, err error) string {
	if err == nil {
		return "ok"
	}
	for id, e := range w.Errs {
		if e == err {
			return "fail:" + id
		}
	}
	var ua *am.ErrArgumentUnsatisfied
	if errors.As(err, &ua) {
		return "unsat"
	}
	return "err:" + firstLine(err.Error())
}

func invString(inv []Invocation) string {
	var r []string
	for _, i := range inv {
		r = append(r, i.String())
	}
	return strings.Join(r, "; ")
}

// c08Premise: every converter has at most one input, no subtype labels, each name
// denotes a single type.
func c08Premise(s Scenario) bool {
	nameT := map[string]int{}
	ok := true
	see := func(l Label) {
		if l.Sub != "" {
			ok = false
		}
		if l.Name != "" {
			if t, seen := nameT[l.Name]; seen && t != l.T {
				ok = false
			}
			nameT[l.Name] = l.T
		}
	}
	for _, l := range s.Target.In {
		see(l)
	}
	for _, in := range s.Inputs {
		see(in.L)
	}
	for _, c := range s.Convs {
		if len(c.In) > 1 {
			ok = false
		}
		for _, l := range c.In {
			see(l)
		}
		for _, l := range c.Out {
			see(l)
		}
	}
	return ok
}

// CheckRedef evaluates C08/C09 (and C06 via the common path) on a Redefine execution.
func CheckRedef(props map[string]bool, s Scenario, o Outcome, pure bool) []Finding {
	var fs []Finding
	add := func(p, clause, m string, a ...interface{}) {
		if props[p] {
			fs = append(fs, Finding{p, clause, fmt.Sprintf(m, a...)})
		}
	}
	if o.Panic != "" {
		add("C06", o.PanicKind+":"+o.Frame, "%s: %s", o.PanicKind, firstLine(o.Panic))
		add("C08", "panic", "%s: %s", o.PanicKind, firstLine(o.Panic))
		return fs
	}
	r := o.Redef
	if r == nil || o.BuildErr != "" {
		return fs
	}
	if r.RanDuring > 0 {
		add("C09", "ran-user-code", "Redefine executed %d user function(s): %s", r.RanDuring, invString(o.Log.Inv[:r.RanDuring]))
	}
	if !c08Premise(s) || s.Malformed != "" {
		return fs
	}
	rejected := s.FilterOut == 2 && len(s.Target.Out) > 0
	allPermitted := true
	for _, p := range s.Target.In {
		if !s.filterAllows(p.T) {
			allPermitted = false
		}
	}
	if r.RedefErr != nil {
		if allPermitted && !rejected {
			add("C08", "must-succeed", "every target parameter passes the input filter but Redefine failed: %s", firstLine(r.RedefErr.Error()))
		}
		return fs
	}
	if rejected {
		add("C08", "must-fail", "an output is rejected by the output filter but Redefine succeeded")
	}
	for _, l := range r.Inputs {
		if l.T < 0 || !s.filterAllows(l.T) {
			add("C08", "filter", "redefined input %s does not pass the input filter %v", l, s.FilterIn)
		}
		for _, in := range s.Inputs {
			if in.L == l {
				add("C08", "resupplied", "redefined input %s was already supplied by the caller", l)
			}
		}
	}
	if r.CallUnsat {
		add("C08", "unsatisfied", "calling the redefined function with a value for every declared input fails for lack of an argument: %s", unsatArgs(r.CallErr))
	}
	// zero-valued supplies (tier redefzero) carry no provenance term: only the structural
	// clauses above are decided for them
	for _, in := range s.Inputs {
		if in.V == "" {
			return fs
		}
	}
	// the redefined call must itself be a valid execution: C01 on its log with the new values as inputs
	s2 := s
	s2.Inputs = append(append([]Input{}, s.Inputs...), r.NewInputs...)
	lg := &Log{Inv: r.CallLog}
	for _, inv := range r.CallLog {
		for _, a := range inv.Args {
			l, _, bad := supplierLabel(s2, lg, a.Prov)
			if bad != "" {
				add("C08", "fabricated", "redefined call: %s param %s: %s", inv.Func, a.Param, bad)
				add("C01", "fabricated", "redefined call: %s param %s: %s", inv.Func, a.Param, bad)
			} else if !Env(l, a.Param) {
				add("C08", "mislabelled", "redefined call: %s param %s received %s supplied as %s", inv.Func, a.Param, a.Prov, l)
				add("C01", "mislabelled", "redefined call: %s param %s received %s supplied as %s", inv.Func, a.Param, a.Prov, l)
			}
		}
	}
	// Differential clause. When two of the values in play (original inputs and the
	// new ones) share a type, a type-only field of the redefined function may
	// legitimately be fed by either, so the wrapper need not pass the values through
	// one-to-one; the comparison is made where the binding is unambiguous.
	seenT := map[int]bool{}
	unambiguous := true
	for _, in := range s2.Inputs {
		if seenT[in.L.T] {
			unambiguous = false
		}
		seenT[in.L.T] = true
	}
	if pure && unambiguous && r.RedefKey != r.DirectKey {
		add("C08", "differs", "redefined call observed %q but the original function with the same arguments observes %q", r.RedefKey, r.DirectKey)
	}
	return fs
}

func unsatArgs(err error) string {
	var ua *am.ErrArgumentUnsatisfied
	if errors.As(err, &ua) {
		return unsatKey(ua)
	}
	return ""
}
