package harness

import (
	"fmt"
	"reflect"

	am "github.com/hashicorp/go-argmapper"
	"github.com/hashicorp/go-argmapper/internal/verifrt"
)

// C10: Convert(T, args) against Call of an identity function func(T) T built by the
// harness (same Go type as the library's internal one, hence the same vertex hash and
// the same choice points); the choices taken during Convert are replayed for the Call.

type ConvObs struct {
	ConvErr   error
	ConvNil   bool
	ConvTerm  string
	ConvType  reflect.Type
	ConvLog   []Invocation
	CallErr   error
	CallTerm  string // what the identity body received
	CallLog   []Invocation
	SameShape bool // the identity call met the same choice points as Convert
	Sorted    bool // the execution used sorted order everywhere (then both runs did)
}

type recordedChoice struct {
	site string
	n    int
	perm []int
}

// RunConvDiff runs Convert under the installed chooser (recording it), then the
// identity call under the recorded choices.
func RunConvDiff(s Scenario) (o Outcome) {
	w := NewWorld()
	o.World = w
	o.Log = w.Log
	o.Conv = &ConvObs{}
	c := o.Conv
	verifrt.ResetBudget()
	defer guard(&o)
	T := typeOf(s.Target.In[0].T)
	base := s
	base.Mode = "convert"
	_, args, berr := buildArgs(base, w)
	if berr != "" {
		o.BuildErr = berr
		return
	}
	outer := verifrt.Choose
	var rec []recordedChoice
	verifrt.Choose = func(site string, n int) []int {
		var p []int
		if outer != nil {
			p = outer(site, n)
		}
		rec = append(rec, recordedChoice{site, n, p})
		return p
	}
	v, err := am.Convert(T, args...)
	verifrt.Choose = outer
	c.ConvErr = err
	c.ConvLog = append([]Invocation{}, w.Log.Inv...)
	if v == nil {
		c.ConvNil = true
	} else {
		c.ConvTerm = provOfIface(v)
		c.ConvType = reflect.TypeOf(v)
	}
	o.Err = err
	o.classifyErr()
	if !c.ConvNil {
		o.Results = []string{c.ConvTerm}
	}

	// identity call on fresh objects, replaying the recorded choices
	w2 := NewWorld()
	_, args2, _ := buildArgs(base, w2)
	received := "<not run>"
	idf := reflect.MakeFunc(reflect.FuncOf([]reflect.Type{T}, []reflect.Type{T}, false), func(a []reflect.Value) []reflect.Value {
		received = provOf(a[0])
		return a
	})
	f, ferr := am.NewFunc(idf.Interface())
	if ferr != nil {
		o.BuildErr = "identity: " + ferr.Error()
		return
	}
	i := 0
	c.SameShape = true
	verifrt.Choose = func(site string, n int) []int {
		if i < len(rec) && rec[i].site == site && rec[i].n == n {
			p := rec[i].perm
			i++
			return p
		}
		c.SameShape = false
		return nil
	}
	r := f.Call(args2...)
	verifrt.Choose = outer
	if i != len(rec) {
		c.SameShape = false
	}
	c.CallErr = r.Err()
	c.Sorted = PureOrder && !ReverseOrder
	c.CallTerm = received
	c.CallLog = w2.Log.Inv
	return
}

// CheckConv evaluates C10 on one execution.
func CheckConv(props map[string]bool, s Scenario, o Outcome) []Finding {
	var fs []Finding
	add := func(p, clause, m string, a ...interface{}) {
		if props[p] {
			fs = append(fs, Finding{p, clause, fmt.Sprintf(m, a...)})
		}
	}
	if o.Panic != "" {
		add("C06", o.PanicKind+":"+o.Frame, "%s: %s", o.PanicKind, firstLine(o.Panic))
		add("C10", "panic", "%s: %s", o.PanicKind, firstLine(o.Panic))
		return fs
	}
	c := o.Conv
	if c == nil || o.BuildErr != "" {
		return fs
	}
	// the two runs are comparable when the identity call replayed Convert's choices, or
	// when both ran under sorted order (a Convert that meets different choice points
	// than the identity call can only be compared under one global policy)
	comparable := c.SameShape || c.Sorted
	if (c.ConvErr == nil) != (c.CallErr == nil) && comparable {
		add("C10", "disagree", "Convert error=%v but calling func(T) T with the same arguments gives error=%v", c.ConvErr != nil, c.CallErr != nil)
	}
	T := typeOf(s.Target.In[0].T)
	if c.ConvErr != nil {
		if !c.ConvNil {
			add("C10", "value-on-error", "Convert returned an error together with a non-nil value %s", c.ConvTerm)
		}
	} else {
		if c.ConvNil && comparable && c.CallErr == nil && c.CallTerm == "<nil>" {
			// the call would inject a nil interface value (a converter returned one):
			// a nil result without error is then the value
		} else if c.ConvNil {
			add("C10", "nil-on-success", "Convert returned neither a value nor an error")
		} else {
			if !c.ConvType.AssignableTo(T) {
				add("C10", "type", "Convert returned a %v, not assignable to %v", c.ConvType, T)
			}
			if c.CallErr == nil && comparable && c.ConvTerm != c.CallTerm {
				add("C10", "value", "Convert returned %s but the identity call would inject %s", c.ConvTerm, c.CallTerm)
			}
			// the returned value obeys C01: a supplied value or the output of an executed converter, label-compatible
			lg := &Log{Inv: c.ConvLog}
			l, _, bad := supplierLabel(s, lg, c.ConvTerm)
			if bad != "" {
				add("C10", "fabricated", "Convert returned %s", bad)
			} else if !Env(l, s.Target.In[0]) {
				add("C10", "mislabelled", "Convert returned %s supplied as %s for target %s", c.ConvTerm, l, s.Target.In[0])
			}
		}
	}
	if comparable && invString(c.ConvLog) != invString(c.CallLog) {
		add("C10", "log", "Convert executed [%s], the identity call [%s]", invString(c.ConvLog), invString(c.CallLog))
	}
	// every converter body executed during Convert received correct bindings
	for _, f := range CheckExec(map[string]bool{"C01": true}, Scenario{Target: s.Target, Inputs: s.Inputs, Convs: s.Convs}, Outcome{Log: &Log{Inv: c.ConvLog}, World: o.World, Err: c.ConvErr, OK: c.ConvErr == nil}) {
		add("C10", "c01-"+f.Clause, "during Convert: %s", f.Msg)
	}
	return fs
}

func init() {
	reg("convert", "every scenario of direct/conv1/chains3x2/iface/forms whose target has a single type-only parameter without subtype (concrete T0 and interface Iface), run through Convert and through Call of func(T) T", func(size int, emit func(Scenario)) {
		take := func(s Scenario) {
			if len(s.Target.In) != 1 || s.Target.In[0].Name != "" || s.Target.In[0].Sub != "" {
				return
			}
			s.Mode = "convdiff"
			// func(T) T must not clash with a converter of the same Go type
			for _, c := range s.Convs {
				if !c.Built && !c.HasErr && c.InForm == FormPositional && c.OutForm == FormPositional && len(c.In) == 1 && len(c.Out) == 1 && c.In[0].T == s.Target.In[0].T && c.Out[0].T == s.Target.In[0].T {
					return
				}
			}
			emit(s)
		}
		Tiers["direct"].Gen(0, take)
		csz := 0
		if size >= 1 {
			csz = 1
		}
		Tiers["conv1"].Gen(csz, take)
		Tiers["chains3x2"].Gen(0, take)
		Tiers["iface"].Gen(0, take)
		if size >= 1 {
			Tiers["forms"].Gen(0, take)
			Tiers["fails3x2"].Gen(0, take)
		}
		if size >= 2 {
			Tiers["chains4x2"].Gen(0, take)
		}
	})
	Plans["C10"] = map[string][]Step{
		"quick":    {{Tier: "convert", Size: 0, Bound: 1}, {Tier: "convert", Size: 1, Bound: 0}, {Tier: "malformed", Size: 1, Bound: 0}, {Tier: "convert-twins", Bound: 1}},
		"thorough": {{Tier: "convert", Size: 1, Bound: 1}, {Tier: "convert", Size: 2, Bound: 0}, {Tier: "convert", Size: 0, Bound: 1, Bound2: true}, {Tier: "malformed", Size: 1, Bound: 1}, {Tier: "convert-twins", Bound: 2}},
	}
}
