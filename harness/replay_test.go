package harness

import (
	"os"
	"path/filepath"
	"testing"
)

// TestReplay replays recorded artefacts under plain `go test` (built through the vinst
// overlay), without any exploration:
//
//	VERIF_REPLAY=/verif/replays/C01-....json go test -overlay <ov>/overlay.json -vet=off -run TestReplay ./harness
//
// Without VERIF_REPLAY it replays every witness of the repaired defects (witness/*.json)
// and expects none of them to violate any more.
func TestReplay(t *testing.T) {
	files := []string{os.Getenv("VERIF_REPLAY")}
	if files[0] == "" {
		files, _ = filepath.Glob(filepath.Join(VerifDir(), "witness", "*.json"))
	}
	for _, f := range files {
		f := f
		t.Run(filepath.Base(f), func(t *testing.T) {
			if isSchedulerReplay(f) {
				t.Skip("scheduler / race replays need the -access / -race builds: use ./run.sh replay")
			}
			if st := ReplayFile(f); st != 0 {
				t.Fatalf("replay of %s: status %d (1 = violation reproduced)", f, st)
			}
		})
	}
}
