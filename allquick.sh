#!/bin/bash
# allquick.sh [mode]: run every registered check once (development helper)
MODE=${1:-quick}
cd "$(dirname "$0")"
for i in $(seq -w 1 20); do
  P=C$i
  S=$(date +%s)
  ./run.sh $P $MODE > /tmp/allq.$P.log 2>&1; E=$?
  echo "$P exit=$E $(( $(date +%s) - S ))s  $(grep -c '^VIOLATION' /tmp/allq.$P.log) violations  $(tail -1 /tmp/allq.$P.log | cut -c1-160)"
done
