#!/bin/bash
# allquick.sh [mode] [props...]: run registered checks once (development helper)
MODE=${1:-quick}; shift
PROPS="$@"
[ -z "$PROPS" ] && PROPS=$(for i in $(seq -w 1 20); do echo C$i; done)
cd "$(dirname "$0")"
for P in $PROPS; do
  S=$(date +%s)
  ./run.sh $P $MODE > /tmp/allq.$P.log 2>&1; E=$?
  echo "$P exit=$E $(( $(date +%s) - S ))s  $(grep -c '^VIOLATION' /tmp/allq.$P.log) violations  $(tail -1 /tmp/allq.$P.log | cut -c1-160)"
done
