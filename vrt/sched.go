//go:build go1.21

package verifrt

import "fmt"

// Cooperative scheduler: exactly one logical thread runs at a time; every hooked
// operation (access to shared-class memory of a "hot" class, explicit Yield, lock
// acquire, thread start) is a scheduling point at which the schedule decides who
// runs next. A schedule is the list of choices, each an index into the canonical
// enabled list: the thread that ran last first (if still enabled), then ascending ids.
//
// Implementation: the goroutine that calls Run is the controller; a thread that
// reaches a point records its pending operation, signals the controller and parks.

type OpKind int

const (
	OpStart OpKind = iota
	OpAccess
	OpYield
	OpLock
	OpRLock
)

// AccessRec is one hooked access.
type AccessRec struct {
	Thread int
	Class  string
	Addr   interface{} // typed pointer: keeps the object alive, compares by identity
	Write  bool
	Site   string
	VC     []int
}

// Point is one scheduling point of an execution.
type Point struct {
	Running        int // thread that ran last (-1: initial point)
	RunningEnabled bool
	Enabled        []int
	Chosen         int      // index into Enabled
	Labels         []string // pending operation of each enabled thread
}

type pendingOp struct {
	kind  OpKind
	lock  *LockState
	label string
}

// LockState is the scheduler-visible state of a shimmed mutex.
type LockState struct {
	Writer  bool
	Readers int
	vc      []int
}

type abortExec struct{}

type Sched struct {
	n       int
	wake    []chan bool
	req     chan int
	done    []bool
	pending []pendingOp
	cur     int

	Prefix    []int
	Points    []Point
	Acc       []AccessRec
	Hot       map[string]bool // nil: every class is a scheduling point
	Written   map[string]bool
	Classes   map[string]int
	MaxPoints int

	vc     [][]int
	active []map[string]int
	steps  []int

	aborting   bool
	Deadlock   bool
	Livelock   bool
	Diverged   string        // replay divergence (a harness error, never a violation)
	Panics     []interface{} // per-thread panic values (nil = none)
	Unmodelled []string
}

// S is the active scheduler (nil outside Run).
var S *Sched

// Access is the hook inserted before statements touching shared-class memory.
// addr is evaluated lazily and under recover: the statement may short-circuit
// before the access would happen.
func Access(class string, addr func() interface{}, write bool, site string) {
	s := S
	if s == nil || s.aborting {
		return
	}
	var a interface{}
	func() {
		defer func() { recover() }()
		a = addr()
	}()
	s.Classes[class]++
	if write {
		s.Written[class] = true
	}
	if s.Hot == nil || s.Hot[class] {
		s.point(OpAccess, nil, class+"@"+site)
	}
	t := s.cur
	s.Acc = append(s.Acc, AccessRec{t, class, a, write, site, append([]int(nil), s.vc[t]...)})
}

// Yield is an explicit scheduling point for harness bodies.
func Yield(label string) {
	if s := S; s != nil {
		s.point(OpYield, nil, label)
	}
}

// Cur returns the running logical thread (-1 without scheduler).
func Cur() int {
	if S == nil {
		return -1
	}
	return S.cur
}

// Unmodelled records synchronisation the scheduler does not model.
func Unmodelled(what string) {
	if S != nil {
		S.Unmodelled = append(S.Unmodelled, what)
	}
}

func (s *Sched) opEnabled(t int) bool {
	if s.done[t] {
		return false
	}
	p := s.pending[t]
	switch p.kind {
	case OpLock:
		return !p.lock.Writer && p.lock.Readers == 0
	case OpRLock:
		return !p.lock.Writer
	}
	return true
}

func (s *Sched) enabledList(running int) []int {
	var e []int
	if running >= 0 && s.opEnabled(running) {
		e = append(e, running)
	}
	for i := 0; i < s.n; i++ {
		if i != running && s.opEnabled(i) {
			e = append(e, i)
		}
	}
	return e
}

// point parks the running thread with its pending operation until the controller
// grants it the baton again.
func (s *Sched) point(kind OpKind, lock *LockState, label string) {
	if s.aborting {
		return
	}
	t := s.cur
	s.pending[t] = pendingOp{kind, lock, label}
	s.req <- t
	if ok := <-s.wake[t]; !ok {
		panic(abortExec{})
	}
}

func (s *Sched) lock(l *LockState, read bool) {
	if s.aborting {
		return
	}
	if read {
		s.point(OpRLock, l, "rlock")
		l.Readers++
	} else {
		s.point(OpLock, l, "lock")
		l.Writer = true
	}
	t := s.cur
	for i, c := range l.vc {
		if c > s.vc[t][i] {
			s.vc[t][i] = c
		}
	}
}

func (s *Sched) unlock(l *LockState, read bool) {
	if read {
		if l.Readers > 0 {
			l.Readers--
		}
	} else {
		l.Writer = false
	}
	t := s.cur
	if l.vc == nil {
		l.vc = make([]int, s.n)
	}
	for i, c := range s.vc[t] {
		if c > l.vc[i] {
			l.vc[i] = c
		}
	}
	s.vc[t][t]++
}

// SchedLock / SchedUnlock are used by the vsync shims.
func SchedLock(l *LockState, read bool)   { S.lock(l, read) }
func SchedUnlock(l *LockState, read bool) { S.unlock(l, read) }

func (s *Sched) enter(fn string) {
	t := s.cur
	n := s.active[t][fn] + 1
	s.active[t][fn] = n
	s.steps[t]++
	if s.aborting {
		return
	}
	if MaxActive > 0 && n > MaxActive {
		panic(BudgetExceeded{"recursion depth", fn})
	}
	if MaxSteps > 0 && s.steps[t] > MaxSteps {
		panic(BudgetExceeded{"step budget", fn})
	}
}

func (s *Sched) exit(fn string) {
	t := s.cur
	if s.active[t][fn] > 0 {
		s.active[t][fn]--
	}
}

func (s *Sched) tick(fn string) {
	t := s.cur
	s.steps[t]++
	if !s.aborting && MaxSteps > 0 && s.steps[t] > MaxSteps {
		panic(BudgetExceeded{"step budget", fn})
	}
}

// Run executes the thread bodies under the schedule prefix (then choice 0 at every
// later point) and returns the scheduler with its trace.
func Run(bodies []func(), prefix []int, hot map[string]bool, maxPoints int) *Sched {
	n := len(bodies)
	s := &Sched{n: n, Prefix: prefix, Hot: hot, Written: map[string]bool{}, Classes: map[string]int{},
		MaxPoints: maxPoints, req: make(chan int)}
	s.wake = make([]chan bool, n)
	s.done = make([]bool, n)
	s.pending = make([]pendingOp, n)
	s.Panics = make([]interface{}, n)
	s.vc = make([][]int, n)
	s.active = make([]map[string]int, n)
	s.steps = make([]int, n)
	for i := 0; i < n; i++ {
		s.wake[i] = make(chan bool)
		s.vc[i] = make([]int, n)
		s.vc[i][i] = 1
		s.active[i] = map[string]int{}
		s.pending[i] = pendingOp{OpStart, nil, "start"}
	}
	S = s
	for i := range bodies {
		i := i
		go func() {
			defer func() {
				if r := recover(); r != nil {
					if _, ok := r.(abortExec); !ok {
						s.Panics[i] = r
					}
				}
				s.done[i] = true
				s.req <- i
			}()
			if ok := <-s.wake[i]; !ok {
				panic(abortExec{})
			}
			bodies[i]()
		}()
	}
	running := -1
	for {
		en := s.enabledList(running)
		if len(en) == 0 {
			all := true
			for _, d := range s.done {
				all = all && d
			}
			if !all {
				s.Deadlock = true
				s.abort()
			}
			break
		}
		if s.MaxPoints > 0 && len(s.Points) >= s.MaxPoints {
			s.Livelock = true
			s.abort()
			break
		}
		c := 0
		if len(s.Points) < len(s.Prefix) {
			c = s.Prefix[len(s.Points)]
			if c >= len(en) {
				s.Diverged = fmt.Sprintf("schedule replay divergence at point %d: choice %d of %d enabled", len(s.Points), c, len(en))
				s.abort()
				break
			}
		}
		labels := make([]string, len(en))
		for i, t := range en {
			labels[i] = s.pending[t].label
		}
		s.Points = append(s.Points, Point{running, running >= 0 && en[0] == running, en, c, labels})
		running = en[c]
		s.cur = running
		s.wake[running] <- true
		<-s.req
	}
	S = nil
	return s
}

// abort unwinds every unfinished thread, one at a time.
func (s *Sched) abort() {
	s.aborting = true
	for i := 0; i < s.n; i++ {
		if !s.done[i] {
			s.cur = i
			s.wake[i] <- false
			<-s.req
		}
	}
}

// SharedWritten returns the classes that have a location accessed by two or more
// threads with at least one write in this execution (candidates for dependence).
func (s *Sched) SharedWritten() map[string]bool {
	type key struct {
		class string
		addr  interface{}
	}
	type st struct {
		first   int
		multi   bool
		written bool
	}
	locs := map[key]*st{}
	for _, a := range s.Acc {
		if a.Addr == nil {
			continue
		}
		k := key{a.Class, a.Addr}
		x, ok := locs[k]
		if !ok {
			x = &st{first: a.Thread}
			locs[k] = x
		}
		if a.Thread != x.first {
			x.multi = true
		}
		if a.Write {
			x.written = true
		}
	}
	out := map[string]bool{}
	for k, x := range locs {
		if x.multi && x.written {
			out[k.class] = true
		}
	}
	return out
}

// Conflict is a pair of accesses to one location by two threads, at least one a
// write, unordered by happens-before (program order + lock release/acquire).
type Conflict struct {
	Class          string
	SiteA, SiteB   string
	WriteA, WriteB bool
}

// Conflicts computes the data races of the finished execution.
func (s *Sched) Conflicts() []Conflict {
	type key struct {
		class string
		addr  interface{}
	}
	byLoc := map[key][]int{}
	var order []key
	for i, a := range s.Acc {
		if a.Addr == nil {
			continue
		}
		k := key{a.Class, a.Addr}
		if _, ok := byLoc[k]; !ok {
			order = append(order, k)
		}
		byLoc[k] = append(byLoc[k], i)
	}
	seen := map[Conflict]bool{}
	var out []Conflict
	for _, k := range order {
		idx := byLoc[k]
		if len(idx) < 2 {
			continue
		}
		for x := 0; x < len(idx); x++ {
			a := s.Acc[idx[x]]
			for y := x + 1; y < len(idx); y++ {
				b := s.Acc[idx[y]]
				if a.Thread == b.Thread || (!a.Write && !b.Write) {
					continue
				}
				// a precedes b in the trace; ordered iff a's epoch is visible to b.
				if a.VC[a.Thread] <= b.VC[a.Thread] {
					continue
				}
				c := Conflict{a.Class, a.Site, b.Site, a.Write, b.Write}
				if !seen[c] {
					seen[c] = true
					out = append(out, c)
				}
			}
		}
	}
	return out
}
