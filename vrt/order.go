//go:build go1.21

// Package verifrt is the runtime half of the instrumentation that vinst inserts into
// go-argmapper (mounted by a build overlay as .../internal/verifrt; /repo is untouched).
// It owns every source of nondeterminism of the library: the iteration order of each
// range-over-map (order.go), recursion/step budgets (budget.go) and, for concurrent
// harnesses, a cooperative scheduler over hooked shared-memory accesses (sched.go).
package verifrt

import (
	"fmt"
	"reflect"
	"sort"
)

// Chooser is consulted at every choice point: a range over a map with n >= 2 keys at
// the given site ("Func#ordinal"). It returns a permutation (indices into the
// canonically sorted key list), or nil for sorted order.
type Chooser func(site string, n int) []int

// Choose is the installed chooser. nil => canonical ascending order everywhere.
var Choose Chooser

// Points counts choice points met (maps with >= 2 keys) since the last reset.
var Points int

// Grown lists sites where a map grew while being ranged over (explored orders would
// then under-approximate Go's semantics). Reported in evidence; never judged.
var Grown = map[string]int{}

var keyCache = map[interface{}]string{}

func canon(k interface{}) string {
	switch v := k.(type) {
	case string:
		return "s|" + v
	case int:
		return fmt.Sprintf("i|%020d", v)
	}
	if s, ok := keyCache[k]; ok {
		return s
	}
	var s string
	if t, ok := k.(reflect.Type); ok {
		s = "t|" + t.PkgPath() + "|" + t.String()
	} else if rv := reflect.ValueOf(k); rv.Kind() == reflect.Ptr {
		// pointer keys: by dynamic type only (exactly one *rootVertex per graph);
		// two pointer keys of one type collide below and abort loudly.
		s = fmt.Sprintf("p|%T", k)
	} else {
		s = fmt.Sprintf("v|%T|%v", k, k)
	}
	if len(keyCache) < 1<<16 {
		keyCache[k] = s
	}
	return s
}

// HarnessError is panicked for conditions that make exploration unsound (never a
// property violation): the driver turns it into exit status 2.
type HarnessError struct{ Msg string }

func (h HarnessError) Error() string { return "verifrt harness error: " + h.Msg }

// Keys returns the keys of m in the order decided by the chooser.
func Keys[M ~map[K]V, K comparable, V any](m M, site string) []K {
	ks := make([]K, 0, len(m))
	for k := range m {
		ks = append(ks, k)
	}
	if len(ks) < 2 {
		return ks
	}
	cs := make([]string, len(ks))
	for i, k := range ks {
		cs[i] = canon(k)
	}
	sort.Sort(&byCanon[K]{ks, cs})
	for i := 1; i < len(cs); i++ {
		if cs[i] == cs[i-1] {
			panic(HarnessError{"non-canonical key order at " + site + ": " + cs[i]})
		}
	}
	Points++
	if Choose == nil {
		return ks
	}
	perm := Choose(site, len(ks))
	if perm == nil {
		return ks
	}
	out := make([]K, len(ks))
	for i, p := range perm {
		out[i] = ks[p]
	}
	return out
}

// Done is called after an instrumented loop: a map that grew during the loop is recorded.
func Done(lenAfter, lenBefore int, site string) {
	if lenAfter > lenBefore {
		Grown[site]++
	}
}

type byCanon[K any] struct {
	ks []K
	cs []string
}

func (b *byCanon[K]) Len() int           { return len(b.ks) }
func (b *byCanon[K]) Less(i, j int) bool { return b.cs[i] < b.cs[j] }
func (b *byCanon[K]) Swap(i, j int) {
	b.ks[i], b.ks[j] = b.ks[j], b.ks[i]
	b.cs[i], b.cs[j] = b.cs[j], b.cs[i]
}

func ZeroK[M ~map[K]V, K comparable, V any](m M) (k K) { return }
func ZeroV[M ~map[K]V, K comparable, V any](m M) (v V) { return }
