//go:build go1.21

package verifrt

// Depth/step budgets: deterministic stand-ins for stack exhaustion and
// non-termination. Nothing is decided by wall clock.

// BudgetExceeded is the sentinel panic raised when a budget is exhausted.
type BudgetExceeded struct{ What, Where string }

func (b BudgetExceeded) Error() string {
	return "verifrt budget exceeded: " + b.What + " in " + b.Where
}

var (
	// MaxActive bounds the live activations of any single instrumented function (0 = off).
	MaxActive int
	// MaxSteps bounds loop iterations + function entries per execution (0 = off).
	MaxSteps int

	active     = map[string]int{}
	Steps      int
	StepsSeen  int // high-water mark over executions (calibration)
	ActiveSeen int
)

// ResetBudget starts a new execution.
func ResetBudget() {
	if Steps > StepsSeen {
		StepsSeen = Steps
	}
	Steps = 0
	for k := range active {
		delete(active, k)
	}
}

func Enter(fn string) {
	if S != nil {
		S.enter(fn)
		return
	}
	n := active[fn] + 1
	active[fn] = n
	if n > ActiveSeen {
		ActiveSeen = n
	}
	Steps++
	if MaxActive > 0 && n > MaxActive {
		panic(BudgetExceeded{"recursion depth", fn})
	}
	if MaxSteps > 0 && Steps > MaxSteps {
		panic(BudgetExceeded{"step budget", fn})
	}
}

func Exit(fn string) {
	if S != nil {
		S.exit(fn)
		return
	}
	if active[fn] > 0 {
		active[fn]--
	}
}

func Tick(fn string) {
	if S != nil {
		S.tick(fn)
		return
	}
	Steps++
	if MaxSteps > 0 && Steps > MaxSteps {
		panic(BudgetExceeded{"step budget", fn})
	}
}
