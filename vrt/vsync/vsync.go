//go:build go1.21

// Package vsync replaces package sync inside the instrumented library: outside a
// scheduled execution the types behave exactly like the originals; under the
// cooperative scheduler an acquire is a scheduling point that is enabled only
// while the lock is free, and release->acquire joins vector clocks.
package vsync

import (
	"sync"

	"github.com/hashicorp/go-argmapper/internal/verifrt"
)

type Locker = sync.Locker

type Mutex struct {
	real sync.Mutex
	st   verifrt.LockState
}

func (m *Mutex) Lock() {
	if verifrt.S == nil {
		m.real.Lock()
		return
	}
	verifrt.SchedLock(&m.st, false)
}

func (m *Mutex) Unlock() {
	if verifrt.S == nil {
		m.real.Unlock()
		return
	}
	verifrt.SchedUnlock(&m.st, false)
}

func (m *Mutex) TryLock() bool {
	if verifrt.S == nil {
		return m.real.TryLock()
	}
	if m.st.Writer || m.st.Readers > 0 {
		return false
	}
	verifrt.SchedLock(&m.st, false)
	return true
}

type RWMutex struct {
	real sync.RWMutex
	st   verifrt.LockState
}

func (m *RWMutex) Lock() {
	if verifrt.S == nil {
		m.real.Lock()
		return
	}
	verifrt.SchedLock(&m.st, false)
}
func (m *RWMutex) Unlock() {
	if verifrt.S == nil {
		m.real.Unlock()
		return
	}
	verifrt.SchedUnlock(&m.st, false)
}
func (m *RWMutex) RLock() {
	if verifrt.S == nil {
		m.real.RLock()
		return
	}
	verifrt.SchedLock(&m.st, true)
}
func (m *RWMutex) RUnlock() {
	if verifrt.S == nil {
		m.real.RUnlock()
		return
	}
	verifrt.SchedUnlock(&m.st, true)
}
func (m *RWMutex) RLocker() Locker { return (*rlocker)(m) }

type rlocker RWMutex

func (r *rlocker) Lock()   { (*RWMutex)(r).RLock() }
func (r *rlocker) Unlock() { (*RWMutex)(r).RUnlock() }

// Once: Do blocks concurrent callers until the first call returns, like sync.Once.
type Once struct {
	real sync.Once
	m    Mutex
	done bool
}

func (o *Once) Do(f func()) {
	if verifrt.S == nil && !o.done {
		o.real.Do(func() { f(); o.done = true })
		return
	}
	o.m.Lock()
	defer o.m.Unlock()
	if !o.done {
		defer func() { o.done = true }()
		f()
	}
}

// Unmodelled primitives: usable, but a scheduled run that meets them is reported
// as not exhaustive.
type WaitGroup struct{ sync.WaitGroup }

func (w *WaitGroup) Wait() { verifrt.Unmodelled("sync.WaitGroup.Wait"); w.WaitGroup.Wait() }

type Cond = sync.Cond
type Map = sync.Map
type Pool = sync.Pool

func NewCond(l Locker) *Cond   { verifrt.Unmodelled("sync.Cond"); return sync.NewCond(l) }
func OnceFunc(f func()) func() { var o Once; return func() { o.Do(f) } }
