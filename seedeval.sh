#!/bin/bash
# seedeval.sh <seed-dir> <n> <out-dir> <prop>...  — development helper
# Confirms a seeded change (compiles, suite passes, demo fails with / passes without),
# then runs the given quick checks against a scratch worktree carrying the change.
set -u
SEED=$1; N=$2; OUT=$3; shift 3
export GOFLAGS=-mod=mod GOPROXY=off GOSUMDB=off GOTOOLCHAIN=local
WT=$(mktemp -d /tmp/mw-XXXXXX); rmdir "$WT"
git -C /repo worktree add -q --detach "$WT" HEAD || exit 2
trap 'git -C /repo worktree remove --force "$WT" 2>/dev/null; rm -rf "$WT"' EXIT
mkdir -p "$OUT"
PKG=.
grep -q "^package graph" "$SEED/demo${N}_test.go.txt" && PKG=internal/graph
# demo on the clean tree
cp "$SEED/demo${N}_test.go.txt" "$WT/$PKG/seed_demo${N}_test.go"
(cd "$WT" && go test -vet=off -count=1 ./$PKG/ > "$OUT/demo_clean.log" 2>&1); CLEAN=$?
rm -f "$WT/$PKG/seed_demo${N}_test.go"
(cd "$WT" && git apply "$SEED/patch${N}.diff") || { echo "RESULT patch does not apply"; exit 3; }
(cd "$WT" && go build ./... && go vet ./... > "$OUT/vet.log" 2>&1; go test -vet=off -count=1 ./... > "$OUT/suite.log" 2>&1); SUITE=$?
cp "$SEED/demo${N}_test.go.txt" "$WT/$PKG/seed_demo${N}_test.go"
(cd "$WT" && go test -vet=off -count=1 ./$PKG/ > "$OUT/demo_mut.log" 2>&1); MUT=$?
rm -f "$WT/$PKG/seed_demo${N}_test.go"
echo "RESULT demo_clean_exit=$CLEAN suite_with_patch_exit=$SUITE demo_with_patch_exit=$MUT"
for P in "$@"; do
  VERIF_REPO="$WT" VERIF_OUT_DIR="$OUT" /verif/run.sh "$P" quick > "$OUT/$P.log" 2>&1; E=$?
  echo "CHECK $P exit=$E $(grep -c '^VIOLATION' "$OUT/$P.log") violation lines; $(grep -m1 'clause=' "$OUT/$P.log" | cut -c1-220)"
done
