#!/bin/bash
# run.sh <Cxx> quick|thorough   |   run.sh replay <file>
# Instruments /repo's working tree (vinst), builds vcheck through the overlay in a
# private scratch directory outside /repo and /verif, runs it, removes the scratch.
set -u
cd "$(dirname "$0")"
VERIF=$(pwd)
export GOFLAGS=-mod=mod GOPROXY=off GOSUMDB=off GOTOOLCHAIN=local VERIF_DIR=$VERIF
REPO=${VERIF_REPO:-/repo}
SCR=$(mktemp -d "${TMPDIR:-/tmp}/verif-XXXXXX") || exit 2
trap 'rm -rf "$SCR"' EXIT
if [ ! -x "$VERIF/bin/vinst" ] || [ "$VERIF/vinst/main.go" -nt "$VERIF/bin/vinst" ]; then
  (cd "$VERIF/vinst" && go build -o "$VERIF/bin/vinst" .) || { echo "cannot build vinst" >&2; exit 2; }
fi
ACCESS=""
case "${1:-}" in C11|C12) ACCESS="-access";; replay) grep -q '"engine": "conc-' "${2:-/dev/null}" 2>/dev/null && ACCESS="-access";; esac
[ "${VERIF_ACCESS:-}" = 1 ] && ACCESS="-access"
AS=""
[ "$REPO" != "/repo" ] && AS="-as /repo"   # development: check a scratch copy (never used by registered commands)
"$VERIF/bin/vinst" $ACCESS $AS "$SCR/ov" "$VERIF/vrt" "$REPO" > "$SCR/vinst.log" 2>&1 || { cat "$SCR/vinst.log" >&2; echo "instrumentation failed" >&2; exit 2; }
cp "$REPO/go.sum" "$VERIF/go.sum" 2>/dev/null
go build -overlay "$SCR/ov/overlay.json" -o "$SCR/vcheck" ./cmd/vcheck > "$SCR/build.log" 2>&1 || { cat "$SCR/build.log" >&2; echo "build failed" >&2; exit 2; }
# C11/C12 (and their replays) also need the plain -race build for the free-running pass
NEEDRACE=""
case "${1:-}" in C11|C12) NEEDRACE=1;; replay) grep -q '"engine": "race"' "${2:-/dev/null}" 2>/dev/null && NEEDRACE=1;; esac
if [ -n "$NEEDRACE" ]; then
  go build -race -overlay "$SCR/ov/overlay-plain.json" -o "$SCR/vcheck-race" ./cmd/vcheck > "$SCR/build-race.log" 2>&1 || { cat "$SCR/build-race.log" >&2; echo "race build failed" >&2; exit 2; }
  export VERIF_RACE_BIN="$SCR/vcheck-race"
fi
if [ "${1:-}" = "witnesses" ]; then
  # replay every witness of the repaired defects under plain `go test` (no exploration)
  go test -overlay "$SCR/ov/overlay.json" -vet=off -count=1 -run TestReplay ./harness
  exit $?
fi
export VERIF_OVERLAY="$SCR/ov" VERIF_SCRATCH="$SCR"
"$SCR/vcheck" "$@"
