// vcheck is the model-checking driver: `vcheck <Cxx> quick|thorough`,
// `vcheck replay <file>`, and the internal `vcheck worker ...`.
package main

import (
	"bufio"
	"encoding/json"
	"fmt"
	"os"
	"sort"
	"strconv"
	"strings"
	"time"

	h "github.com/hashicorp/go-argmapper/verifharness/harness"
)

func main() {
	defer func() {
		if r := recover(); r != nil {
			if hp, ok := r.(h.HarnessPanic); ok {
				fmt.Fprintln(os.Stderr, "HARNESS ERROR:", hp.Msg)
				os.Exit(2)
			}
			panic(r)
		}
	}()
	if len(os.Args) < 2 {
		usage()
	}
	switch os.Args[1] {
	case "worker":
		a := os.Args[2:]
		atoi := func(s string) int { n, _ := strconv.Atoi(s); return n }
		prop, mode, stepIdx := a[0], a[1], atoi(a[2])
		st := h.Plans[prop][mode][stepIdx]
		w := bufio.NewWriterSize(os.Stdout, 1<<16)
		h.Worker(prop, st, atoi(a[3]), atoi(a[4]), atoi(a[5]), atoi(a[6]), a[7], w)
		w.Flush()
	case "raceworker":
		a := os.Args[2:]
		atoi := func(s string) int { n, _ := strconv.Atoi(s); return n }
		h.RacePassWorker(a[0], a[1], atoi(a[2]), atoi(a[3]), atoi(a[4]), a[5])
	case "replay":
		os.Exit(h.ReplayFile(os.Args[2]))
	case "sizes":
		for name := range h.Tiers {
			for size := 0; size <= 2; size++ {
				fmt.Printf("%-12s size=%d %d\n", name, size, h.TierSize(name, size))
			}
		}
	default:
		if len(os.Args) < 3 {
			usage()
		}
		os.Exit(h.RunCheck(os.Args[0], os.Args[1], os.Args[2]))
	}
}

func usage() {
	fmt.Fprintln(os.Stderr, "usage: vcheck <Cxx> quick|thorough | vcheck replay <file> | vcheck sizes")
	os.Exit(2)
}

var _ = json.Marshal
var _ = sort.Strings
var _ = strings.Join
var _ = time.Now
