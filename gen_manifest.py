#!/usr/bin/env python3
"""Regenerates MANIFEST.json from the table below (keeps it valid at all times)."""
import json, os
ENV = "GOFLAGS=-mod=mod GOPROXY=off GOSUMDB=off GOTOOLCHAIN=local"
SWEEP = "exhaustive enumeration of a bounded scenario alphabet on the real library x deviation-bounded DFS over map-iteration orders (explicit choice points inserted by the vinst overlay)"
checks = {
 "C01": ("order", SWEEP + "; oracle: provenance of every argument of every executed body against the label envelope", "6 C01"),
 "C02": ("order", SWEEP + "; oracle: least-fixpoint derivability reference model", "6 C02"),
 "C03": ("order", SWEEP + "; oracle: exact-key inputs win against distractor inputs/converters", "6 C03"),
 "C04": ("order", SWEEP + "; oracle: ordered call log and error identity for every subset of failing converters", "6 C04"),
 "C05": ("order", SWEEP + "; oracle: completeness against the Core derivation + one outcome class over all explored orders", "6 C05"),
 "C06": ("order", SWEEP + "; oracle: no panic / recursion-depth or step-budget sentinel / worker death", "6 C06"),
 "C07": ("order", SWEEP + "; alphabet: competing same-typed named inputs / competing converters in every form x every permutation of the option list; oracle: which input was converted / which converter ran", "6 C07"),
 "C09": ("hist", "exhaustive enumeration of all operation sequences (Call/Redefine on shared Func, converter and option objects) up to depth 3/4 x order exploration; oracle: differential against the same history with the Redefine steps deleted, and empty call log during every Redefine", "6 C09"),
 "C10": ("order", SWEEP + "; oracle: differential between Convert and Call of a harness-built func(T) T under the replayed choice sequence", "6 C10"),
 "C11": ("sched", "sequential part: exhaustive enumeration of all call/Redefine sequences up to depth 3/4 over 10 forms of a shared run-once converter x order exploration, differential against an ordinary function whose body memoizes (reference model of run-once); concurrent part: every thread interleaving within the preemption bound under a hand-written cooperative scheduler over hooked shared-memory accesses/body yields/lock acquires (body count <= 1, outcome equals some serial order), plus a free-running -race pass", "6 C11"),
 "C12": ("sched", "stateless DFS over thread schedules with preemption bound (controlled cooperative scheduler over access hooks, body yields and shimmed sync.Mutex acquires of the real library) with vector-clock race detection on hooked locations and a serial-order outcome oracle; plus a separate free-running pass of the same bodies on the plain build under Go's race detector", "6 C12"),
 "C08": ("order", SWEEP + " over Redefine scenarios; oracle: filter/resupply/callability + differential against the original function", "6 C08"),
 "C14": ("api", "exhaustive enumeration of function signatures (positional lists, marker structs with every field-tag variant, pointer forms, error positions, rejected shapes) on the real NewFunc; oracle: value list computed from the signature description", "6 C14"),
 "C15": ("api", "exhaustive enumeration of value lists through NewValueSet/accessors/Signature round trip, and of BuildFunc input/output lists x 3-call histories compared with an ordinary function of the same signature", "6 C15"),
 "C16": ("api", "exhaustive enumeration of option lists (length <=4/5 over a 10-option menu) x default/call splits x parameter casings, and of all permutations of distinct-key lists; oracle: last-occurrence-per-key reference; plus all 2/3-call histories over lists of reused option values and over option lists sharing a backing array, differential against the same history with fresh options", "6 C16"),
 "C17": ("api", "exhaustive enumeration of result shapes (arity 0-4 over T0/T1/error/*myErr at every position, nil/non-nil final error, failed resolutions) on the real Call/Result accessors", "6 C17"),
 "C18": ("graph", "exhaustive enumeration of all small weighted digraphs x sources x map-iteration orders (all orders for n<=3, deviation-bounded above) on the real Dijkstra/EdgeToPath; oracle: Floyd-Warshall", "6 C18"),
 "C19": ("graph-state", "explicit-state BFS (visited set over canonical graph states) whose every transition runs the real Graph operation and its Copy/Reverse obligations, read back through the public API against an adjacency-matrix model", "6 C19"),
 "C20": ("graph", "exhaustive enumeration of all digraphs on <=4 vertices x starts x decline sets x map-iteration orders on the real DFS/KahnSort/StronglyConnected/TopoShortestPath; oracle: transitive closure / Floyd-Warshall", "6 C20"),
 "C13": ("order", SWEEP + "; oracle: contents of ErrArgumentUnsatisfied against the reference model", "6 C13"),
}
todo = {}
for i in range(1, 21):
    pid = "C%02d" % i
    if pid not in checks:
        todo[pid] = "check not built yet (build round in progress)"
LEVEL_TEXT = {
 "sched": "Stateless model checking of the implementation under a controlled scheduler: 2-3 logical threads performing 1-2 operations each on shared targets, converters and option values; every schedule within the preemption bound (3 for 2 threads x 1 operation, 2 for 2 x 2 and 3 x 1 in thorough; scheduling points at hooked accesses of classes that have a location touched by two threads with a write, at user-body yields and at lock acquires) is executed; per execution: happens-before race detection on hooked locations, deadlock/livelock/panic detection, and comparison of each thread's outcome with its outcomes in all serial orders. Memory the hooks cannot name (reflect writes, slice backing arrays, map internals) is covered by a separate free-running -race pass, which is exhaustive over the case alphabet but not over schedules.",
 "hist": "Bounded exhaustive model checking over histories: every operation sequence up to the stated depth over a fixed menu is executed on real shared objects (fresh per history), under sorted/reversed order and (for short histories) every one-deviation order; oracles are differential between two ways of reaching the same state.",
 "api": "Bounded exhaustive model checking of the API surface: every case of a closed-form enumeration (stated in the evidence) is executed on the real library, under sorted and globally reversed map order, and compared with a reference computed from the case description.",
 "graph": "Bounded exhaustive model checking of internal/graph: every digraph of the stated size and weight alphabet is run through the real algorithm under every map-iteration order (all orders for n<=3; within the stated deviation bound otherwise) and compared with a textbook reference on every execution.",
 "graph-state": "Explicit-state model checking of the real Graph: breadth-first search over all canonical states reachable from the zero Graph (2-3 hash codes, 2 representative objects per code, weights absent/1/2), every operation of the menu applied in every state on the real code and read back through the public API; invariants (mirror, adjacency model, Copy independence, Reverse sharing, Reverse twice) checked on every transition.",
 "order": "Bounded exhaustive model checking of the implementation: every scenario of the stated alphabet is executed on the real library under every map-iteration order within the stated deviation bound of sorted order (plus the globally reversed order); the oracle is evaluated on every execution. This reaches what the suite cannot: the quantifiers over inputs/configurations and over iteration orders.",
}
man = {
 "version": 1,
 "setup_cmd": "./setup.sh",
 "hooks": {
  "guard": "verifinst",
  "enable": "no source change in /repo: every check runs bin/vinst, which regenerates a `go build -overlay` from /repo's working tree (range-over-map choice points, budgets, access hooks, sync shims; runtime mounted as internal/verifrt) and builds cmd/vcheck through it",
  "baseline_off_cmd": "cd /repo && env %s go test -vet=off -count=1 ./..." % ENV,
  "source_commits": [],
  "add_only": True,
 },
 "engines": [
  {"name": "vinst", "path": "vinst/", "serves_properties": sorted(checks), "kind_free_text": "AST instrumenter emitting a build overlay (no edits to /repo)"},
  {"name": "sched", "path": "vrt/sched.go, vrt/vsync/, harness/conc.go, harness/racepass.go", "serves_properties": ["C11", "C12"], "kind_free_text": "cooperative scheduler + preemption-bounded DFS over schedules of the real library; vector-clock conflict detection; sync shims; separate -race pass"},
  {"name": "hist", "path": "harness/hist.go", "serves_properties": ["C09", "C11"], "kind_free_text": "breadth-first enumeration of operation sequences on shared objects; successors by replay on fresh objects"},
  {"name": "api", "path": "harness/api.go, harness/api2.go", "serves_properties": ["C14", "C15", "C16", "C17"], "kind_free_text": "exhaustive case enumeration against spec-derived references, in-process"},
  {"name": "graph", "path": "harness/graphcheck.go", "serves_properties": ["C18", "C20"], "kind_free_text": "exhaustive small-graph enumeration x order exploration against reference algorithms"},
  {"name": "graph-state", "path": "harness/graphstate.go", "serves_properties": ["C19"], "kind_free_text": "explicit-state BFS with visited set; transitions executed on the real Graph"},
  {"name": "order", "path": "harness/order.go", "serves_properties": [p for p in sorted(checks) if checks[p][0] == "order"], "kind_free_text": "stateless deviation-bounded DFS over map-iteration-order choice points of the real library, sharded over worker subprocesses"},
 ],
 "checks": [],
 "not_applicable": [{"property_id": p, "reason": r} for p, r in sorted(todo.items())],
 "notes": "See DESIGN.md. known_findings.json lists genuine defects found by these checks (all repaired by fix: commits in /repo; 'fixed' entries suppress nothing). seeded/RESULTS.md: 120 property-breaking changes written by sub-agents and which checks report them. ./run.sh witnesses replays the witnesses of the repaired defects under plain go test.",
}
for pid in sorted(checks):
    eng, tech, ref = checks[pid]
    man["checks"].append({
     "property_id": pid,
     "quick_cmd": "./run.sh %s quick" % pid,
     "thorough_cmd": "./run.sh %s thorough" % pid,
     "evidence_file": "/verif/evidence/%s.json" % pid,
     "replay_cmd_template": "./run.sh replay {path}",
     "engine": eng,
     "level_claimed": {"category": "model_checking", "text": LEVEL_TEXT[eng], "design_ref": "DESIGN.md section " + ref},
     "level_note": "Trusted: the Go toolchain; that the vinst rewriting preserves behaviour (the repository's suite passes on the instrumented build in setup_cmd; replay determinism is asserted before any violation is reported); the reference label model (Core subset of library subset of Env). Bounds: labels over 5 carrier struct types, 2 pointer types, *myErr and 2 interfaces, names a/b/c, subtypes x/y; <=3 converters of <=2 inputs; orders within 1-2 deviations of sorted order plus global reversal; histories <=3/4 operations; <=2/3 threads with preemption bound 2/3.",
     "technique": tech,
    })
json.dump(man, open(os.path.join(os.path.dirname(os.path.abspath(__file__)), "MANIFEST.json"), "w"), indent=1)
print("MANIFEST.json: %d checks, %d not_applicable" % (len(man["checks"]), len(man["not_applicable"])))
