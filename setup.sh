#!/bin/bash
# setup.sh: build the framework offline from files on disk and warm the build cache.
set -e
cd "$(dirname "$0")"
export GOFLAGS=-mod=mod GOPROXY=off GOSUMDB=off GOTOOLCHAIN=local
mkdir -p bin evidence replays
(cd vinst && go build -o ../bin/vinst .)
cp /repo/go.sum go.sum 2>/dev/null || true
SCR=$(mktemp -d "${TMPDIR:-/tmp}/verif-setup-XXXXXX")
trap 'rm -rf "$SCR"' EXIT
# order/budget overlay: build vcheck, run the repository's suite on the instrumented build
./bin/vinst "$SCR/ov" "$PWD/vrt" /repo
go build -overlay "$SCR/ov/overlay.json" -o "$SCR/vcheck" ./cmd/vcheck
(cd /repo && go test -overlay "$SCR/ov/overlay.json" -vet=off -count=1 ./... )
# access-hook overlay (scheduler checks)
./bin/vinst -access "$SCR/ova" "$PWD/vrt" /repo
go build -overlay "$SCR/ova/overlay.json" -o "$SCR/vcheck-a" ./cmd/vcheck
(cd /repo && go test -overlay "$SCR/ova/overlay.json" -vet=off -count=1 ./... )
# plain -race build of the harness (free-running race pass)
go build -race -overlay "$SCR/ov/overlay-plain.json" -o "$SCR/vcheck-race" ./cmd/vcheck
echo "setup ok"
