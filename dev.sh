#!/bin/bash
# dev.sh: instrument + build once into /tmp/vdev (development helper; not used by checks)
export GOFLAGS=-mod=mod GOPROXY=off GOSUMDB=off GOTOOLCHAIN=local VERIF_DIR=/verif
cd /verif && (cd vinst && go build -o /verif/bin/vinst .) && rm -rf /tmp/vdev && mkdir -p /tmp/vdev && \
./bin/vinst ${ACCESS:+-access} ${VERIF_REPO:+-as /repo} /tmp/vdev/ov /verif/vrt ${VERIF_REPO:-/repo} && go build -overlay /tmp/vdev/ov/overlay.json -o /tmp/vdev/vcheck ./cmd/vcheck && echo built /tmp/vdev/vcheck
