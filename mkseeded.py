#!/usr/bin/env python3
"""Assembles /verif/seeded/<id>/ from the sub-agents' deliverables (/tmp/seed) and my
confirmation + check runs (/tmp/seedout/*.txt). Development helper; run by hand."""
import json, os, re, shutil, sys, glob

NEEDS = {
 "C01-1": ("converter outputs enumerated from the ordered value list while outputValues still maps through the type/name-keyed maps", "a converter returning two values of one type (or name) that differ only in subtype; a subtype=x parameter then receives the subtype=y value"),
 "C01-2": ("the function returned by Redefine appends its per-call values onto the caller's option slice instead of a copy", "an option slice with spare capacity plus concurrent invocations (or later reuse of the backing array)"),
 "C02-1": ("Func.argBuilder merges defaults and call options with append(f.callOpts, opts...)", "default options held in a slice with spare capacity and two overlapping Calls on the same Func"),
 "C02-2": ("the Reaching set is looked up with the vertex instead of its id, so the ancestor-cycle check never hits", "a conversion cycle closed through an outer converter on the reach stack (mutually dependent multi-input converters)"),
 "C03-1": ("type-only inputs get a root edge of weight 5 instead of 1", "a type-only parameter with an exact Typed input plus a provider/converter producing a *named* value of that type"),
 "C03-2": ("Func.argBuilder merges defaults and call options with append(f.callOpts, opts...)", "default options with spare capacity and two overlapping Calls"),
 "C04-1": ("the error of a nested reachTarget is wrapped with fmt.Errorf(%w)", "a failing converter that produces a secondary argument of a multi-input converter (it runs inside the nested reach)"),
 "C04-2": ("Result.Err treats a nil pointer inside a non-nil error interface as no error", "a converter (or target) returning a typed-nil error value"),
 "C05-1": ("state.Reaching is only cleared on the early 'conv satisfied' return", "a finished multi-input converter on the path of a later multi-input converter's missing argument (5 types, 3 converters). NOTE: written against ee0fd03; since the D9 repair was refined the existing suite (TestFuncCall/once_option) fails with it"),
 "C05-2": ("the subtype fallback for arg:T is skipped whenever out:T has any producer", "the only derivable T carries a subtype and the only producer of plain T is a converter whose input cannot be derived"),
 "C06-1": ("Graph.Remove deletes from adjacencyIn instead of adjacencyOut when cleaning in-edges", "a multi-input converter on the chosen path with one unproducible (pruned) input: OutEdges then holds a nil vertex"),
 "C06-2": ("the AssignableTo guard on state.Value in the typedArgVertex walk is dropped", "Redefine with FilterInput forcing a positional input that feeds a converter, after an earlier argument left a differently typed state.Value; order-dependent"),
 "C07-1": ("the discounted graph copy is taken once per reachTarget, so -1 discounts accumulate", "two named parameters of one function converted from competing same-typed inputs, plus an unlucky iteration order"),
 "C07-2": ("a typedArgVertex keeps its first value (not reloaded when walked again)", "the same type-only converter needed twice in one Call"),
 "C08-1": ("the function returned by Redefine appends onto the caller's option slice (callArgs := opts)", "an option slice with spare capacity plus reuse of the backing array or two goroutines calling the redefined function"),
 "C08-2": ("inputsProvided is looked up by vertex pointer instead of vertex id", "a supplied named value the target does not need, a converter from it to a missing parameter, and a filter rejecting that parameter's type"),
 "C09-1": ("Redefine swaps the zero body into the shared Func in place and restores fn afterwards", "a FuncOnce converter not yet executed, Redefine before the first Call: the zero result stays memoized"),
 "C09-2": ("parameterless converters are skipped when bodies are replaced by zero functions", "a provider plus a FilterInput rejecting the provider's output type: Redefine executes the provider"),
 "C10-1": ("convertFunc caches the identity Func by fmt.Sprint(target types)", "two Converts in one process to distinct types whose printed names coincide"),
 "C10-2": ("Convert returns an exactly typed input directly without building the call graph", "a typed input of the target type together with a failing ConverterGen (or a marker-struct target)"),
 "C11-1": ("the memo check is moved above the run-once lock and not repeated after acquiring it", "two goroutines first needing the function while the first execution is still running"),
 "C11-2": ("only successful results are memoized", "a run-once function whose first execution returns an error, needed again"),
 "C12-1": ("Func.argBuilder merges defaults and call options with append(f.callOpts, opts...)", "default options with spare capacity and overlapping Calls/Redefines"),
 "C12-2": ("Redefine swaps zero bodies into the shared Funcs in place and restores them in a defer", "a Call overlapping a running Redefine on the same Func / converter objects"),
 "C13-1": ("converters with an already seen function type are skipped and dropped from the returned list", "two supplied converters of identical Go type and a hopeless parameter"),
 "C13-2": ("unsatisfied requirements are deduplicated by Go type when Args is built", "two hopeless named parameters of one type"),
 "C14-1": ("every anonymous field is skipped, not just the marker", "a marker struct embedding another exported type"),
 "C14-2": ("isStruct unwraps a single pointer only", "a marker struct behind two pointers is accepted as an ordinary type-only value"),
 "C15-1": ("TypedSubtype looks the type up in typedValues first", "two type-only values of one type with distinct subtypes, queried for one that is not the last"),
 "C15-2": ("Typed prefers TypedSubtype(t, \"\"), which also matches named values", "a set holding a named value of type T (no subtype) and a type-only value of T"),
 "C16-1": ("Named stores under the caller's spelling; lower-casing happens when the graph is built", "one key supplied in two casings (last-wins then depends on map order)"),
 "C16-2": ("a nil inside a multi-value Typed(...) returns early", "Typed(nil, v): the values after the nil are dropped"),
 "C17-1": ("the slice copy in ValueSet.result is dropped (D7's repair undone)", "a FuncOnce function returning *Struct first used as a converter, then called directly"),
 "C17-2": ("Result.hasError uses Implements(error) instead of == error", "a final result of a concrete error type: Len() is one short"),
 "C18-1": ("the visited set is removed from Dijkstra", "an unreachable vertex with an edge into the reachable region (int32 wrap of 'infinity')"),
 "C18-2": ("Dijkstra reuses its per-vertex queue items across calls without resetting 'previous'", "a second search on the same Graph value from another source"),
 "C19-1": ("Copy shares empty predecessor maps with the original", "an edge added (in the copy) into a vertex that had no in-edges at the time of the copy"),
 "C19-2": ("AddOverwrite re-initialises the adjacency of a vertex that has no in-edges", "overwriting an existing vertex with out-edges and no in-edges"),
 "C20-1": ("Tarjan's inStack compares DFS indexes instead of scanning the stack", "a cross edge into an already finished component in the same DFS tree, under a particular iteration order"),
 "C20-2": ("KahnSort panics only if Cycles() is non-empty", "a graph whose only cycles are self-loops (Cycles drops singleton components)"),
}

NEEDS2 = {
 "C01-3": ("Func.argBuilder merges defaults and call options with append(f.callOpts, opts...) (sequential form)", "default options in a slice with spare capacity shared through `ext := append(common, x)`, and a call on the first function before the other list is used: the second function runs with a value only ever supplied to the first"),
 "C01-4": ("Func.graph builds input vertices through Value.vertex(), which now carries Value.Value", "BuildFunc(orig.Input(), ...) — a wrapper sharing another function's input set — run before the wrapped function is used with a different supplied value (type-only parameter)"),
 "C02-3": ("ConverterGen generators are also shown type-only *requirement* vertices", "a generator keyed on the output type; the type exists only as an unnamed parameter. NOT REPORTED: the change only makes a generator produce a converter it did not produce before; every executed function still receives proper arguments and nothing the properties assert is contradicted (generated converters whose trigger is only a requirement lie in the Core/Env gap that DESIGN section 5 leaves unasserted)"),
 "C02-4": ("NewValueSet keeps the subtype only for type-only values", "a named value with a subtype declared through NewValueSet/BuildFunc: the subtype is lost (reported as a value-set round-trip / built-function difference by C15; inside the label envelope, so C01/C02 are silent by design)"),
 "C05-3": ("the per-argument graph copy before the matching-name discount is dropped, so -1 weights leak into later searches of the call", "a NamedSubtype value, a same-name same-type requirement without subtype, a type-only requirement of that type resolved afterwards, and a favourable order: panic in ~12% of runs"),
 "C05-4": ("interface outputs are linked only to concrete implementations", "a requirement of interface type I1 whose only derivation ends in a converter declared to return another interface I2 implementing I1"),
 "C06-3": ("Dijkstra's visited set is removed (cooperating with the -1 matching-name discount)", "a named argument whose name and type appear with and without subtype and a converter between them: the predecessor map stops being a tree and EdgeToPath never returns"),
 "C06-4": ("type-only fields of the redefined input struct are named after Type.Name()", "Redefine leaving two type-only inputs of composite (unnamed) types to the caller: reflect.StructOf panics on the duplicate field name"),
 "C08-3": ("the function returned by Redefine appends onto the caller's option slice (sequential three-step form)", "r1 redefined from a prefix with spare capacity, r2 from the extended list, then r1 is called: r2 (or any later use of the extended list) sees r1's values"),
 "C08-4": ("the inputsProvided filtering of caller-supplied vertices is removed as redundant", "a supplied Named value whose name matches no parameter, a type-only consumer of that type, and a filter rejecting that type"),
 "C09-3": ("the planning pass stubs only the explicitly listed converters", "a ConverterGen-generated converter on the plan (forced by FilterInput): Redefine executes it"),
 "C09-4": ("a FuncOnce provider is not stubbed during planning", "a run-once parameterless converter, not yet memoized, on the plan: Redefine executes and memoizes it"),
 "C11-3": ("the memoized result is held by value and 'memoized?' is decided by out != nil", "a run-once function without any result (reflect returns a nil slice) used as a target and called again"),
 "C11-4": ("ValueSet.result unwraps into a local but still allocates the nil-pointer replacement in place", "a run-once converter with a pointer-struct output whose single execution returned nil, used a second time"),
 "C12-3": ("Converter(...) caches its *Funcs lazily in the closure, one at a time, without a lock", "an option holding several functions whose first-ever application is concurrent"),
 "C12-4": ("Redefine hoists the input ValueSet out of the generated function (shared per-call state)", "one redefined function called by two goroutines with different input values"),
 "C13-3": ("the unsatisfied list is built from the target's name/type-keyed maps", "a struct target with two type-only subtyped fields of one Go type, the hopeless one declared first"),
 "C13-4": ("the reported converter list is de-duplicated by fn.Pointer()", "two converters made by reflect.MakeFunc (BuildFunc, Redefine): they share one code pointer"),
 "C19-3": ("AddEdgeWeighted returns early when the weight is 'unchanged'", "weight 0 on an absent edge (absent reads as 0)"),
 "C19-4": ("Remove drops the maps when the graph becomes empty", "a reversed view obtained before the graph is drained to zero vertices, then a further mutation"),
}
NEEDS3 = {
 "C03-3": ("isDirectInput narrowed to 'its only out-edge is the root'", "every value vertex also has an edge to its type-only output, so no input is direct any more: the exact named value loses against a same-named converter fed by a NamedSubtype source (order-dependent, ~30%)"),
 "C03-4": ("the edge arg:T/sub -> named value of T/sub weighs 1 instead of 5", "a type-only parameter with a subtype, its exact TypedSubtype input, and a provider/converter producing a named value of that type and subtype"),
 "C04-3": ("a memoized FuncOnce converter skips the error check on later uses", "a run-once converter that failed on its first run, needed by a second Call: the error is swallowed (reported by C11's differential; C04's scenarios are single calls)"),
 "C04-4": ("Call replaces a late *ErrArgumentUnsatisfied by a completed copy", "a converter failing with an error that is or wraps an *ErrArgumentUnsatisfied with empty Inputs/Converters"),
 "C07-3": ("the discounted graph copy is taken once per reachTarget", "two named parameters of one function converted from competing same-typed inputs, and an unlucky order"),
 "C07-4": ("the name discount is restricted to values of the parameter's subtype", "a *subtyped* named parameter needing conversion, competing same-typed inputs, an unlucky order"),
 "C10-3": ("Convert returns an exactly typed input directly without building the call graph", "a typed input of the target type together with a failing ConverterGen"),
 "C10-4": ("Convert turns an untyped-nil result into an error", "an interface-typed target, a converter declared to return an interface, returning nil without error (first not reported: nil interface results were outside the alphabet; reported since converters returning nil interface values were added to the iface tier)"),
 "C14-3": ("parsed struct tags are cached per tag string, including the resolved name", "a tag without a name (e.g. `,subtype=X`) reused on differently named fields: later fields report the first field's name"),
 "C14-4": ("the mixed-signature check only looks at position 0", "a marker struct mixed with other parameters/results, not in first position"),
 "C15-3": ("Func.outputValues looks type-only outputs up with TypedSubtype, which also matches named values", "a converter with a named and a type-only output of one type (named first) feeding a differently named parameter through the type-only vertex (reported by C01's provenance oracle on the multiout tier; built and ordinary functions are equally wrong, so C15's differential is silent)"),
 "C15-4": ("ValueSet.SignatureValues skips zero values", "an interface-typed entry holding the zero value of a concrete type: it reads back as nil"),
 "C16-3": ("Func.argBuilder merges defaults and call options with append(f.callOpts, opts...)", "defaults in a slice with spare capacity shared by two functions, f1.Call(x) before f2.Call()"),
 "C16-4": ("NamedSubtype loses its empty-subtype shortcut", "NamedSubtype(n, v, \"\") followed by Named(n, w): the namedSub spelling always wins"),
 "C17-3": ("the FuncOnce memo moves into a struct shared with Redefine's copies", "Redefine planning through a not-yet-run FuncOnce converter memoizes the zero result into the real function (reported by C09; C17's cases have no Redefine)"),
 "C17-4": ("Result.Err treats a typed-nil final error as nil", "a final error that is a non-nil interface holding a nil pointer"),
 "C18-3": ("the visited set is replaced by a distance comparison", "two unreachable vertices with an edge into the reachable part (int32 wrap), and a favourable pop order"),
 "C18-4": ("a zero-weight fast path swaps instead of heap.Fix", "a zero-weight improving edge, a finite-key root and a heap of >= 6 entries in a particular layout"),
 "C20-3": ("Tarjan's inStack compares DFS indexes", "a cross edge into a finished sibling subtree, under a particular iteration order"),
 "C20-4": ("KahnSort panics only if Cycles() is non-empty", "a graph whose only residual cycles are self-loops"),
}
NEEDS4 = {
 "C01-5": ("a typed argument without value takes state.TypedValue[type] (keyed by Go type, ignoring subtype)", "two different non-empty subtypes of one type in one call; the affected parameter belongs to a multi-input converter and is not the one its path enters through"),
 "C01-6": ("converter outputs registered from the ordered value list while outputValues still maps through the type-keyed map", "a converter with two type-only outputs of one type differing in subtype; a consumer of the one not declared last"),
 "C02-5": ("Func.argBuilder merges defaults and call options with append(f.callOpts, opts...)", "default options with spare capacity and two concurrent calls, one satisfiable and one not"),
 "C02-6": ("after a converter's arguments were reached, absent typed inputs are back-filled from state.TypedValue[type]", "a converter with one derivable and one underivable (pruned) typed input that shares its Go type with a value present under another subtype: it runs with a missing argument and the call succeeds"),
 "C03-5": ("the root edge of zero-argument converters weighs 0 instead of 1", "a type-only parameter with its exact Typed input and a provider returning a *named* value of that type: an exact tie, decided by iteration order"),
 "C03-6": ("Func.argBuilder merges defaults and call options with append(f.callOpts, opts...)", "default options with spare capacity and overlapping calls"),
 "C04-5": ("an *ErrArgumentUnsatisfied coming out of a nested reach is replaced by a new one naming the converter", "a multi-input converter whose secondary argument is produced by a failing converter returning a bare *ErrArgumentUnsatisfied"),
 "C04-6": ("a converter's error is consulted only if NumOut != number of output values", "a failing converter whose single struct (or pointer-struct / BuildFunc) output has exactly two value fields"),
 "C05-5": ("a break after the first edge in the subtype-fallback loops", "a type-only parameter without subtype satisfied only through the fallback, two subtyped outputs of which one is underivable, and an unlucky order"),
 "C05-6": ("generators are only offered vertices that already hold a value", "a generated converter whose trigger value is the output of a static converter"),
 "C06-5": ("the AssignableTo guard becomes 'same type or the argument is an interface'", "Redefine through a converter reached by a named input that also has an interface-typed type-only field, forced by FilterInput"),
 "C06-6": ("the per-argument graph copy before the name discount is dropped", "a named and a type-only parameter of one type, the named one supplied only with a subtype, resolved first (order-dependent)"),
 "C08-5": ("the function returned by Redefine appends onto the caller's option slice", "redefine twice from slices sharing a backing array, call the first, then the second"),
 "C08-6": ("FilterOutput skips outputs whose type implements error", "an output of a concrete error type (not the stripped final error) and a rejecting output filter"),
 "C11-5": ("the run-once lock is not held while the body runs", "two goroutines first needing the function with overlapping executions"),
 "C11-6": ("the memo is the raw output slice and 'executed' is decided by out != nil", "a run-once function without results, as a target, called twice"),
 "C12-5": ("Func.argBuilder merges defaults and call options with append(f.callOpts, opts...)", "default options with spare capacity and concurrent calls with differing options"),
 "C12-6": ("the run-once lock is held only to read and to store the memo", "goroutines reaching a shared FuncOnce converter during its first execution (no data race: only the schedule explorer's body count / serial-order oracle sees it)"),
 "C13-5": ("converters whose function vertex is already in the graph are skipped and dropped from the reported list", "two converters of one Go type, or a converter of the target's type, and a hopeless parameter"),
 "C13-6": ("pruned requirements are reported through f.input.Named/Typed (typed map keyed by type only)", "a target with two type-only parameters of one type differing in subtype, the earlier one hopeless"),
}
NEEDS5 = {
 "C07-5": ("the discounted graph copy is shared by all parameters of a function", "two or more named parameters converted from competing same-typed inputs; order-dependent"),
 "C07-6": ("the name discount skips in-edges whose source is a named value vertex", "the same-named input supplied with NamedSubtype, a name-taking converter declaring it without subtype, and a type-only converter: the type-only one runs"),
 "C09-5": ("redefineInputs skips the zeroing of *all* functions when the Redefine target is a memoized FuncOnce function", "a run-once target already called, then a Redefine planned through shared converters (FilterInput): the real converters run"),
 "C09-6": ("Redefine clears the memoized *failure* of a run-once converter on the shared original", "failing Call, Redefine, Call: the converter runs a second time"),
 "C10-5": ("Convert returns an exactly typed input directly", "a typed input of the target type plus a failing ConverterGen"),
 "C10-6": ("Convert's identity Funcs are cached by printed type names", "Convert to two distinct types with the same printed name in one process"),
 "C14-5": ("isStruct stops looking for the marker at the first ordinary field", "a marker struct whose embedded marker is not the first field"),
 "C14-6": ("the tag options map is hoisted out of the per-field loop", "an untagged field declared after a tagged one inherits typeOnly/subtype"),
 "C15-5": ("newValueSetFromStruct caches layouts by reflect.Type and returns shallow copies sharing the Value cells", "two value sets built from equal lists: a 'fresh' set already holds the other's values"),
 "C15-6": ("Func.outputValues looks type-only outputs up with TypedSubtype", "a named output listed before a type-only output of the same type, feeding a differently named parameter (reported by C01 on the multiout tier)"),
 "C16-5": ("Func.argBuilder merges defaults and call options with append(f.callOpts, opts...)", "defaults passed as a sub-slice with spare capacity, a call with other options, then another use of that storage"),
 "C16-6": ("Named stores the raw name; lower-casing moved to graph construction", "one key in two casings through Named: last-wins depends on map order"),
 "C17-5": ("Call returns the memoized result of a FuncOnce target before resolving", "a run-once target that succeeded once, then a call whose resolution fails: it returns the old success (reported by C11's differential)"),
 "C17-6": ("Redefine decides 'already ends in error' with Implements(error)", "a function whose last result is a concrete error type, redefined, whose inner call fails: MakeFunc panics (reported by C06/C08)"),
 "C18-5": ("the visited set is replaced by a distance comparison", "unreachable vertices with an edge into the reachable part (int32 wrap), order-dependent"),
 "C18-6": ("an overflow guard 'weight >= 0 && tempDistance <= 0 -> continue' drops distance-zero relaxations", "a zero-weight edge from a vertex at distance 0"),
 "C19-5": ("Remove takes a fast path for an isolated vertex and leaves its adjacency entries", "remove an isolated vertex, then Add it again: it never returns to the vertex table"),
 "C19-6": ("AddEdgeWeighted returns early if the *opposite* edge already has the weight being set", "an edge v2->v1 of weight w exists and v1->v2 is set to w"),
 "C20-5": ("DFS collects the unvisited neighbours on entry and calls back afterwards", "a shortcut edge a->c next to a->b->c and an order yielding b first: c is descended into twice"),
 "C20-6": ("Tarjan's inStack compares DFS indexes", "an edge into a component already completed in the same DFS tree, order-dependent"),
}
NEEDS6 = {
 "C01-7": ("Func.graph adds converter outputs by ranging over the ordered output list while outputValues still distributes by type-/name-keyed maps", "a struct-form converter with two same-typed outputs differing only in subtype and a consumer of the non-last one"),
 "C01-8": ("Func.argBuilder merges defaults and call options with append(f.callOpts, opts...)", "two functions whose default slices share a backing array with spare capacity; f.Call(Named b) then g.Call() (reported by C16's alias histories and by C12)"),
 "C03-7": ("(*Value).vertex copies the Value and Func.graph reuses it", "values written into the target's Input() set by a BuildFunc(target.Input()) wrapper called earlier; the original target then sees the stale value (reported by C15's wrapper histories)"),
 "C03-8": ("the keep-alive edge of a zero-argument converter gets weight 0", "an exact typed input plus a provider publishing a named value of that type: a 6/6 tie decided by iteration order"),
 "C04-7": ("Call copies an *ErrArgumentUnsatisfied coming out of reachTarget to fill in Inputs/Converters", "a failing converter whose own error is an *ErrArgumentUnsatisfied (a converter delegating to another Func)"),
 "C04-8": ("a failing nested reach is ignored when the converter is a memoized FuncOnce function", "a two-input run-once converter memoized by an earlier call, then a call in which the converter feeding its secondary input fails"),
 "C05-7": ("weightMatchingName becomes -2", "same-named struct converters with a cycle a:T1<->a:T2 and independent producers of both, plus an unlucky order"),
 "C05-8": ("the interface-implementation loop skips candidates whose own type is an interface", "an interface parameter whose only source is a converter result of a wider interface type"),
 "C06-7": ("the visited set is removed from Dijkstra", "a named argument a, a converter a:T -> a:T/sub and a:T itself produced by a converter: a negative cycle through the name discount, EdgeToPath never ends"),
 "C06-8": ("the named-subtype fallback drops its type comparison", "a named parameter a:T1 not supplied directly and a same-named value of another type with a subtype"),
 "C08-7": ("reachTarget takes the next path element as 'input' when the path starts at a zero-argument converter", "a provider with a named (struct) output and a filter rejecting that type"),
 "C08-8": ("supplied inputs are recognised by 'value is not the zero value' instead of by identity", "a caller-supplied named value that is the zero value of its type, used as the source of a conversion"),
 "C09-7": ("only builder.convs are swapped for zero-producing copies, before the graph is built", "a converter handed out by a ConverterGen generator on the planned path"),
 "C09-8": ("ordinary functions are neutralised in place and restored only after reachTarget succeeded", "a Redefine that fails late (in the walk), then a Call through the same shared functions"),
 "C11-7": ("the memo is held by value and 'already ran' is decided by out != nil", "a run-once function without any result, as the target, called twice"),
 "C11-8": ("the memo check moves above the lock and is not repeated under it", "two calls first needing the function with overlapping executions"),
 "C12-7": ("Func.argBuilder merges defaults and call options with append(f.callOpts, opts...)", "defaults in a slice with spare capacity and concurrent calls with their own options"),
 "C12-8": ("Converter(...) parses lazily and caches the parsed list inside the option closure", "one never-applied Converter(f1..f5) option shared by goroutines whose first applications overlap"),
 "C13-7": ("missing arguments are looked up again through f.input.Named/Typed", "two type-only parameters of one type differing in subtype (or two fields mapped to one name), the hopeless one not declared last"),
 "C13-8": ("NamedSubtype pre-builds its one-entry subtype table outside the closure and installs it into the builder", "an option value kept by the caller: used once next to another NamedSubtype of the same name, then alone — the other subtype is still there"),
}
NEEDS.update(NEEDS2)
NEEDS.update(NEEDS3)
NEEDS.update(NEEDS4)
NEEDS.update(NEEDS5)
SRC = {}
for k in NEEDS2:
    prop, n = k.split("-")
    SRC[k] = ("/tmp/seed2/%s" % prop, str(int(n) - 2), "second round: asked for changes needing two or three conditions at once")

for k in NEEDS3:
    prop, n = k.split("-")
    SRC[k] = ("/tmp/seed3/%s" % prop, str(int(n) - 2), "second round: asked for changes needing two or three conditions at once")

for k in NEEDS4:
    prop, n = k.split("-")
    SRC[k] = ("/tmp/seed4/%s" % prop, str(int(n) - 4), "third round: same brief as the second, fresh agents")

for k in NEEDS5:
    prop, n = k.split("-")
    SRC[k] = ("/tmp/seed5/%s" % prop, str(int(n) - 4), "third round: same brief as the second, fresh agents")

NEEDS.update(NEEDS6)
for k in NEEDS6:
    prop, n = k.split("-")
    SRC[k] = ("/tmp/seed6/%s" % prop, str(int(n) - 6), "fourth round: same brief, fresh agents")

def parse(path):
    res = {}
    cur = None
    if not os.path.exists(path):
        return res
    for line in open(path):
        m = re.match(r"=== (C\d+)-(\d) props: (.*)", line)
        if m:
            cur = "%s-%s" % (m.group(1), m.group(2)); res[cur] = {"confirm": None, "checks": []}; continue
        if cur is None: continue
        m = re.match(r"RESULT demo_clean_exit=(\d+) suite_with_patch_exit=(\d+) demo_with_patch_exit=(\d+)", line)
        if m:
            res[cur]["confirm"] = {"demo_on_clean_tree_exit": int(m.group(1)), "suite_with_change_exit": int(m.group(2)), "demo_with_change_exit": int(m.group(3))}
        m = re.match(r"CHECK (C\d+) exit=(\d+) (\d+) violation lines;\s*(.*)", line)
        if m:
            res[cur]["checks"].append({"check": m.group(1), "cmd": "VERIF_REPO=<scratch worktree with the change> ./run.sh %s quick" % m.group(1), "exit": int(m.group(2)), "violation_lines": int(m.group(3)), "first_clause": m.group(4).strip()[:300]})
    return res

results = {}
for f in sys.argv[1:]:
    off = 0
    if f.endswith(":+2"):
        f, off = f[:-3], 2
    if f.endswith(":+4"):
        f, off = f[:-3], 4
    if f.endswith(":+6"):
        f, off = f[:-3], 6
    for k, v in parse(f).items():
        if off:
            pp, nn = k.split("-")
            k = "%s-%d" % (pp, int(nn) + off)
        if k not in results: results[k] = v
        else:
            if v["confirm"]: results[k]["confirm"] = v["confirm"]
            # later runs of the same check replace earlier ones
            for c in v["checks"]:
                results[k]["checks"] = [x for x in results[k]["checks"] if x["check"] != c["check"]] + [c]

out = "/verif/seeded"
rows = []
for key in sorted(NEEDS):
    prop, n = key.split("-")
    src = "/tmp/seed/%s" % prop
    rnd = "first round"
    if key in SRC:
        src, n, rnd = SRC[key]
    if not os.path.exists("%s/patch%s.diff" % (src, n)):
        # already assembled in an earlier run (the sub-agent's worktree is gone): keep it
        mp = "%s/%s/meta.json" % (out, key)
        if os.path.exists(mp):
            rows.append((key, json.load(open(mp))))
        continue
    d = "%s/%s" % (out, key)
    os.makedirs(d, exist_ok=True)
    shutil.copy("%s/patch%s.diff" % (src, n), d + "/patch.diff")
    shutil.copy("%s/demo%s_test.go.txt" % (src, n), d + "/demo_test.go.txt")
    if os.path.exists("%s/notes%s.md" % (src, n)):
        shutil.copy("%s/notes%s.md" % (src, n), d + "/notes.md")
    r = results.get(key, {"confirm": None, "checks": []})
    caught = [c["check"] for c in r["checks"] if c["exit"] == 1 and c["violation_lines"] > 0]
    missed = [c["check"] for c in r["checks"] if c["exit"] == 0]
    pkg = "internal/graph" if "package graph" in open(d + "/demo_test.go.txt").read() else "."
    meta = {
        "id": key, "property": prop, "change": NEEDS[key][0], "needs_to_manifest": NEEDS[key][1],
        "author": "fresh sub-agent given only the text of %s and a scratch worktree of the library (%s)" % (prop, rnd),
        "demo": {"file": "demo_test.go.txt", "copy_to": "%s/seed_demo_test.go" % pkg},
        "confirmation_by_me": r["confirm"],
        "confirmed": bool(r["confirm"] and r["confirm"]["demo_on_clean_tree_exit"] == 0 and r["confirm"]["suite_with_change_exit"] == 0 and r["confirm"]["demo_with_change_exit"] != 0),
        "checks_run": r["checks"], "caught_by": caught, "not_caught_by": missed,
    }
    json.dump(meta, open(d + "/meta.json", "w"), indent=1)
    rows.append((key, meta))

with open(out + "/RESULTS.md", "w") as f:
    f.write("# Seeded property-breaking changes: which checks catch which\n\n")
    f.write("Ids <prop>-1/-2 are the first round, -3/-4 the second round (agents asked for changes that need two or three conditions at once), -5/-6 a third round with the same brief, -7/-8 a fourth. ")
    f.write("Each change was written by a fresh sub-agent that saw only the text of one property and a scratch worktree (nothing from /verif). `confirmed` = I re-ran, in my own scratch worktree: the demo passes on the clean tree, the existing suite passes with the change, the demo fails with the change. Checks were run with `./seedeval.sh` (scratch worktree + `VERIF_REPO`), i.e. the registered quick commands against a copy of the library carrying the change.\n\n")
    f.write("| id | change | needs | confirmed | caught by (quick) | run but silent |\n|---|---|---|---|---|---|\n")
    for key, m in rows:
        f.write("| %s | %s | %s | %s | %s | %s |\n" % (key, m["change"], m["needs_to_manifest"], "yes" if m["confirmed"] else "no (see meta.json)", ", ".join(m["caught_by"]) or "-", ", ".join(m["not_caught_by"]) or "-"))
print("seeded: %d changes; caught %d" % (len(rows), sum(1 for _, m in rows if m["caught_by"])))
